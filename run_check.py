#!/venv/bin/python
"""Entry point of every registered check.

  run_check.py <ID> --tier quick|thorough      search (VERIF_SEED, default 1)
  run_check.py <ID> --replay <file>            re-execute one saved case without Hypothesis

exit 0: property held on everything explored (KNOWN-FINDING lines may be printed)
exit 1: "VIOLATION property=<ID> replay=<path>" for a violation not listed in known_findings.json
exit 2: harness error / inconclusive (never a violation)
"""

import argparse
import importlib
import os
import sys
import traceback

os.environ.setdefault("PYTHONHASHSEED", "0")
if os.environ.get("PYTHONHASHSEED") != "0" or not os.environ.get("_VERIF_REEXEC"):
    # hash randomisation must be off before the interpreter starts: re-exec once
    os.environ["PYTHONHASHSEED"] = "0"
    os.environ["_VERIF_REEXEC"] = "1"
    os.execv(sys.executable, [sys.executable] + sys.argv)

sys.path.insert(0, os.path.dirname(os.path.abspath(__file__)))

from harness import common  # noqa: E402


def main() -> int:
    ap = argparse.ArgumentParser()
    ap.add_argument("prop")
    ap.add_argument("--tier", default=os.environ.get("VERIF_TIER", "quick"), choices=["quick", "thorough"])
    ap.add_argument("--replay")
    ap.add_argument("--cases", type=int)
    ap.add_argument("--shards", type=int)
    ap.add_argument("--no-evidence", action="store_true")
    a = ap.parse_args()
    prop = a.prop.upper()
    seed = int(os.environ.get("VERIF_SEED", "1") or "1")
    modname = f"harness.checks.{prop.lower()}"
    mod = importlib.import_module(modname)

    if a.replay:
        doc = common.load_replay(a.replay)
        try:
            mod.replay(doc["case"])
        except common.Violation as v:
            print(f"replay: {v}")
            print(f"VIOLATION property={prop} replay={a.replay}")
            return 1
        print(f"replay of {a.replay}: property {prop} holds on this case")
        return 0

    t0 = common.now()
    cfg = dict(mod.TIERS[a.tier])
    if a.cases:
        cfg["cases"] = a.cases
    if a.shards:
        cfg["shards"] = a.shards
    stats = common.Stats()

    # 1. regression replays of every defect that was found and fixed (seconds, deterministic)
    nreg = 0
    for path in ([] if os.environ.get("VERIF_NO_REGRESSIONS") else common.regression_files(prop)):
        doc = common.load_replay(path)
        nreg += 1
        # each replay runs in a forked child: replays may monkey-patch library modules (the simulators replace zmq / the shm client),
        # and the shards forked afterwards -- some of which start REAL clusters -- must inherit an untouched library
        kind, msg, clause = common.run_isolated(mod.replay, doc["case"])
        if kind == "violation":
            stats.violations.append({"case": common.canonical(doc["case"]), "msg": f"regression {os.path.basename(path)}: {msg}",
                                     "clause": clause, "path": path})
        elif kind == "error":
            raise common.HarnessError(f"regression replay {os.path.basename(path)} failed:\n{msg}")
    stats.extra["regression_replays"] = nreg

    # 2. generated search
    if not stats.violations:
        merged = common.run_shards(modname, seed, cfg["cases"], cfg["shards"], a.tier)
        merged.extra["regression_replays"] = nreg
        stats = merged
    if hasattr(mod, "finalize"):
        mod.finalize(stats, a.tier)

    wall = common.now() - t0
    if not a.no_evidence:
        common.write_evidence(prop, a.tier, seed, mod.LEVEL, mod.RULE, mod.ASSUMPTIONS, stats, wall,
                              getattr(mod, "EXTRA_COVERAGE", None))

    kf = common.known_findings()
    for fid, hits in sorted(stats.kf_hits.items()):
        if kf.listed(prop, fid):
            print(f"KNOWN-FINDING: property={prop} {fid}: {kf.what(prop, fid)} (matched {hits} generated cases)")
    # listed findings are always announced, also when this run's generator excluded them by construction
    for (p, fid), e in kf.entries.items():
        if p == prop and fid not in stats.kf_hits:
            print(f"KNOWN-FINDING: property={prop} {fid}: {e['what']} (excluded by construction / not reached in this run)")

    print(f"{prop} tier={a.tier} seed={seed}: evaluations={stats.evaluations} distinct_nontrivial={len(stats.fps)} "
          f"violations={len(stats.violations)} wall={wall:.1f}s")
    if stats.violations:
        for v in stats.violations[:5]:
            path = v.get("path") or common.write_replay(prop, v)
            print(f"  {v['msg'][:2000]}")
            print(f"VIOLATION property={prop} replay={path}")
        return 1
    min_nt = getattr(mod, "MIN_NONTRIVIAL", 2)
    if len(stats.fps) < min_nt:
        print(f"harness error: only {len(stats.fps)} distinct non-trivial cases (< {min_nt}); generator is broken")
        return 2
    return 0


if __name__ == "__main__":
    try:
        rc = main()
    except common.HarnessError as e:
        print(f"HARNESS-ERROR: {e}")
        rc = 2
    except SystemExit:
        raise
    except BaseException:
        traceback.print_exc()
        print("HARNESS-ERROR: unexpected exception in the check itself")
        rc = 2
    sys.stdout.flush()
    sys.exit(rc)
