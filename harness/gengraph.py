"""Strategy for earthkit.workflows.graph DAGs as JSON-able specs, builder, independent structural snapshot and the
symbolic (denotational) interpreter used by C11/C12.

spec = {"nodes": [ {"name": str, "outputs": None | [str...], "payload": <json>, "inputs": {iname: [src_index, out]}} ]}
Nodes are listed topologically. The graph's sinks are the nodes nobody consumes.
"""

from __future__ import annotations

from typing import Any

from hypothesis import strategies as st

from . import REPO  # noqa: F401

from earthkit.workflows.graph import Graph, Node  # noqa: E402

ADVERSARIAL = "abmni.-:_"
ATTR_NAMES = ["name", "payload", "inputs", "outputs", "copy"]
PARAM_NAMES = ["node", "n", "s", "p"]
OUT_NAMES = ["0", "1", "x", "out", "10", "2"]
IN_NAMES = ["a", "b", "x", "input", "in0"]
# input names that are ordinary keyword names for Node(...) but coincide with parameter names of helpers further down the line
HELPER_PARAM_NAMES = ["data", "node_factory", "graph", "func", "key"]
# node names that coincide with the keys of a serialised node record
RECORD_KEYS = ["inputs", "outputs", "payload", "name"]

json_payloads = st.one_of(
    st.none(), st.booleans(), st.integers(-(2**40), 2**40), st.floats(allow_nan=False, allow_infinity=False, width=32),
    st.text(alphabet="abc é\"", max_size=4), st.lists(st.integers(0, 3), max_size=3),
    st.dictionaries(st.sampled_from(["k", "l", ""]), st.integers(0, 3), max_size=2),
    # payloads shaped like (parts of) a serialised node record
    st.dictionaries(st.sampled_from(["inputs", "outputs", "payload", "k"]),
                    st.one_of(st.integers(0, 3), st.lists(st.integers(0, 3), max_size=2),
                              st.dictionaries(st.sampled_from(["k", "inputs"]), st.lists(st.text(alphabet="ab0", max_size=2), max_size=2), max_size=2)),
                    max_size=2),
)
small_payloads = st.one_of(st.integers(0, 3), st.sampled_from(["p", "q", "add", "mul"]), st.none())


@st.composite
def graph_specs(draw, max_nodes: int = 12, min_nodes: int = 0, names: str = "adversarial", payloads=small_payloads,
                attr_outputs: bool = False, param_inputs: bool = False, dup_bias: bool = True, allow_no_outputs: bool = True) -> dict:
    n = draw(st.integers(min_nodes, max_nodes))
    if names == "adversarial":
        name_st = st.text(alphabet=ADVERSARIAL, min_size=1, max_size=4)
    elif names == "unicode":
        # ... names that are keys of a serialised record, and names that are also output names in use ("0", "x", "out": a reader that
        # tells nodes from outputs by their text confuses the two)
        name_st = st.one_of(st.text(min_size=0, max_size=5), st.text(min_size=0, max_size=5), st.sampled_from(RECORD_KEYS),
                            st.sampled_from(OUT_NAMES))
    else:
        name_st = st.text(alphabet="abc", min_size=1, max_size=3)
    nms = draw(st.lists(name_st, min_size=n, max_size=n, unique=True))
    out_pool = OUT_NAMES + (ATTR_NAMES if attr_outputs else [])
    in_pool = IN_NAMES + (PARAM_NAMES + HELPER_PARAM_NAMES if param_inputs else []) + (HELPER_PARAM_NAMES if names == "unicode" else [])
    nodes: list[dict] = []
    alias: dict[tuple, int] = {}  # (node index, output name) -> index of a default-output node called "<node name>.<output name>"
    for i in range(n):
        kind = draw(st.sampled_from(["default", "default", "default", "named", "named", "none"]))
        named_before = [(j, o) for j in range(i) for o in (nodes[j]["outputs"] or []) if (j, o) not in alias]
        if names != "unicode" and named_before and draw(st.integers(0, 3)) == 0:
            # a node whose NAME spells another node's output ("x.y" next to output y of node x): anything that identifies an output by
            # its printed form confuses the two
            j, o = draw(st.sampled_from(named_before))
            nm = f"{nodes[j]['name']}.{o}"
            if nm not in nms[:i] and nm not in nms[i + 1:]:
                nms[i] = nm
                alias[(j, o)] = i
                kind = "default"
        if kind == "default":
            outputs = None
        elif kind == "none" and allow_no_outputs:
            outputs = []
        else:
            outputs = draw(st.lists(st.sampled_from(out_pool), min_size=1, max_size=3, unique=True))
        inputs: dict = {}
        cands = [j for j in range(i) if nodes[j]["outputs"] is None or len(nodes[j]["outputs"]) > 0]
        if cands:
            # duplicate of an earlier node: same payload, outputs and inputs
            if dup_bias and i > 0 and i not in alias.values() and draw(st.integers(0, 4)) == 0:
                j = draw(st.integers(0, i - 1))
                nodes.append({"name": nms[i], "outputs": _cp(nodes[j]["outputs"]), "payload": nodes[j]["payload"],
                              "inputs": {k: list(v) for k, v in nodes[j]["inputs"].items()}})
                variant = draw(st.sampled_from(["same", "repoint", "reordered", "crossed"]))
                ins = nodes[-1]["inputs"]
                if variant == "repoint" and ins:
                    # near-duplicate: one input re-pointed
                    k = draw(st.sampled_from(sorted(ins)))
                    rev = {v: kk for kk, v in alias.items()}
                    if tuple(ins[k]) in alias and alias[tuple(ins[k])] < i and draw(st.booleans()):
                        ins[k] = [alias[tuple(ins[k])], "0"]  # ... to the node whose name spells the old source output
                    elif ins[k][0] in rev and draw(st.booleans()):
                        ins[k] = list(rev[ins[k][0]])
                    else:
                        src = draw(st.sampled_from(cands))
                        so = nodes[src]["outputs"]
                        ins[k] = [src, "0" if so is None else draw(st.sampled_from(so))]
                elif variant == "reordered" and len(ins) >= 2:
                    # a true duplicate whose inputs were given in another order
                    nodes[-1]["inputs"] = {k: ins[k] for k in reversed(list(ins))}
                elif variant == "crossed" and len(ins) >= 2:
                    # NOT a duplicate: two inputs swapped -- and declared in the other order, so that position-wise they line up
                    ks = list(ins)
                    a, b = ks[0], ks[1]
                    ins[a], ins[b] = ins[b], ins[a]
                    nodes[-1]["inputs"] = {k: ins[k] for k in reversed(ks)}
                continue
            nin = draw(st.integers(0, 3))
            inames = draw(st.lists(st.sampled_from(in_pool), min_size=nin, max_size=nin, unique=True))
            for k in inames:
                src = draw(st.sampled_from(cands))
                so = nodes[src]["outputs"]
                inputs[k] = [src, "0" if so is None else draw(st.sampled_from(so))]
        nodes.append({"name": nms[i], "outputs": outputs, "payload": draw(payloads), "inputs": inputs})
    return {"nodes": nodes}


def _cp(x):
    return None if x is None else list(x)


def consumed(spec: dict) -> set[int]:
    return {v[0] for nd in spec["nodes"] for v in nd["inputs"].values()}


def sink_indices(spec: dict) -> list[int]:
    c = consumed(spec)
    return [i for i in range(len(spec["nodes"])) if i not in c]


def build_graph(spec: dict, payload_fn=None) -> tuple[Graph, list[Node]]:
    objs: list[Node] = []
    for nd in spec["nodes"]:
        ins = {}
        for k, (src, out) in nd["inputs"].items():
            ins[k] = objs[src].get_output(out)
        payload = nd["payload"] if payload_fn is None else payload_fn(nd["payload"])
        objs.append(Node(nd["name"], None if nd["outputs"] is None else list(nd["outputs"]), payload, **ins))
    return Graph([objs[i] for i in sink_indices(spec)]), objs


def expected_structure(spec: dict, payload_fn=None) -> dict:
    rv = {}
    for nd in spec["nodes"]:
        rv[nd["name"]] = {
            "outputs": ["0"] if nd["outputs"] is None else list(nd["outputs"]),
            "payload": nd["payload"] if payload_fn is None else payload_fn(nd["payload"]),
            "inputs": {k: (spec["nodes"][src]["name"], out) for k, (src, out) in nd["inputs"].items()},
        }
    return rv


def walk(graph: Graph) -> list[Node]:
    """Own traversal (does not use Graph.nodes): every node object reachable from the sinks, once."""
    seen: dict[int, Node] = {}
    todo = list(graph.sinks)
    while todo:
        n = todo.pop()
        if id(n) in seen:
            continue
        seen[id(n)] = n
        for src in n.inputs.values():
            if isinstance(getattr(src, "parent", None), Node):
                todo.append(src.parent)
    return list(seen.values())


def structure(graph: Graph) -> tuple[dict, int]:
    """name -> {outputs, payload, inputs: {iname: (parent name, output name)}} and the number of node objects."""
    rv: dict = {}
    nodes = walk(graph)
    for n in nodes:
        rv.setdefault(n.name, []).append({
            "outputs": list(n.outputs), "payload": n.payload,
            "inputs": {k: (v.parent.name, v.name) for k, v in n.inputs.items()},
        })
    return rv, len(nodes)


def den(node: Node, output: str | None, memo: dict | None = None, unfold=None) -> Any:
    """Denotation of an output: nested tuple (payload, output, sorted((input name, den(parent output))))."""
    if memo is None:
        memo = {}
    key = (id(node), output)
    if key in memo:
        return memo[key]
    for k, v in node.inputs.items():
        if not (hasattr(v, "parent") and hasattr(v, "name") and isinstance(getattr(v, "parent", None), Node)):
            from .common import Violation

            raise Violation(f"input {k!r} of node {node.name!r} is wired to {v!r}, which is not an output of a node", "wired-to-non-output")
    ins = tuple(sorted((k, den(v.parent, v.name, memo, unfold)) for k, v in node.inputs.items()))
    d = (_freeze(node.payload), output, ins)
    if unfold is not None:
        d = unfold(node, output, ins, d)
    memo[key] = d
    return d


def node_den(node: Node, memo: dict | None = None, unfold=None) -> Any:
    """Denotation of a node as a whole: all its outputs (or the node itself when it has none)."""
    if memo is None:
        memo = {}
    if not node.outputs:
        return den(node, None, memo, unfold)
    return tuple(den(node, o, memo, unfold) for o in node.outputs)


def _freeze(x: Any) -> Any:
    if isinstance(x, dict):
        return ("dict",) + tuple(sorted((k, _freeze(v)) for k, v in x.items()))
    if isinstance(x, (list, tuple)):
        return (type(x).__name__,) + tuple(_freeze(v) for v in x)
    return x
