"""Real shm server + concurrent real clients (sampled evidence for C08/C09 and the only place the request/response pairing of
`cascade.shm.client` is exercised with several threads).

One case = a capacity, a number of client threads and, per thread, a generated script in phases. The real `server.entrypoint`
runs in a forked child (real UDP socket on loopback, real Manager, real disk thread pools, real /dev/shm); the client threads use
the real `cascade.shm.client` API. Every key is written by exactly one thread (its owner), so the owner holds an exact sequential
model of its keys while the *server* sees an arbitrary interleaving of all threads plus its own disk jobs. Any thread may
additionally peek at other threads' keys: whatever it gets must be self-consistent (bytes, length and deser_fun of one
incarnation of *that* key).

The schedule is the operating system's, not the harness's: this is sampled, not searched; a failing script is re-run to tell a
persistent failure from a scheduling accident only for time-outs (value violations are violations whenever they happen).
"""

from __future__ import annotations

import glob
import hashlib
import os
import signal
import threading
import time

from . import REPO  # noqa: F401
from .common import HarnessError, Violation

CALL_TIMEOUT = 20.0


def content(key: str, inc: int, size: int) -> bytes:
    h = hashlib.sha256(f"{key}#{inc}".encode()).digest()
    return (h * (size // len(h) + 1))[:size]


def _serve(port: int, capacity: int, prefix: str) -> None:
    # child process: the real server entry point, silent
    try:
        dn = os.open(os.devnull, os.O_WRONLY)
        os.dup2(dn, 1)
        os.dup2(dn, 2)
        from cascade.shm import server

        server.entrypoint(port, capacity, None, prefix)
    finally:
        os._exit(0)


class Server:
    def __init__(self, port: int, capacity: int, prefix: str, attempts: int = 6):
        import multiprocessing as mp

        from cascade.shm import api

        self.prefix = prefix
        self.capacity = capacity
        self.proc = None
        last = None
        for attempt in range(attempts + 6):
            # the block given by the caller first; then ports the operating system says are free right now (several runs of one
            # check at the same time -- sweeps over seeded changes, mutation probes -- would otherwise exhaust a shard's block)
            p = port + attempt if attempt < attempts else self._os_free_udp_port()
            proc = mp.get_context("fork").Process(target=_serve, args=(p, capacity, prefix), daemon=True)
            proc.start()
            api.publish_client_port(p)
            if self._ensure(proc) and self._is_ours(prefix):
                self.proc = proc
                self.port = p
                return
            last = proc.exitcode
            try:
                proc.kill()
            except Exception:
                pass
            proc.join(5)
        raise HarnessError(f"real shm server did not come up on ports {port}..{port + attempts - 1} (exit {last})")

    @staticmethod
    def _os_free_udp_port() -> int:
        import socket

        s = socket.socket(socket.AF_INET, socket.SOCK_DGRAM)
        try:
            s.bind(("localhost", 0))
            return s.getsockname()[1]
        finally:
            s.close()

    @staticmethod
    def _raw(msg, timeout: float = 3.0):
        """One request/response exchange with whoever listens on the published port, with a time-out (the library's client has
        none: it would block for ever if that server went away in between)."""
        import socket

        from cascade.shm import api

        s = socket.socket(socket.AF_INET, socket.SOCK_DGRAM)
        try:
            s.settimeout(timeout)
            s.connect(("localhost", api.get_client_port()))
            s.send(api.ser(msg))
            return api.deser(s.recv(1024))
        finally:
            s.close()

    @classmethod
    def _is_ours(cls, prefix: str) -> bool:
        """Somebody answers on the port -- make sure it is the child just started and not another run's server that owns the port
        (our child would then have failed to bind): the segment name handed out for a probe dataset must carry OUR prefix."""
        from multiprocessing.shared_memory import SharedMemory

        from cascade.shm import api

        key = f"__probe_{prefix}_{os.getpid()}"
        try:
            r = cls._raw(api.AllocateRequest(key=key, l=1, deser_fun="probe"))
            if not isinstance(r, api.AllocateResponse) or r.error:
                return False
            ours = r.shmid.startswith(prefix)
            seg = SharedMemory(r.shmid, create=True, size=1)  # whoever it is: leave its books as they were
            seg.close()
            try:
                import multiprocessing.resource_tracker as rt

                rt.unregister(seg._name, "shared_memory")
            except Exception:  # noqa: BLE001
                pass
            cls._raw(api.CloseCallback(key=key, rdid=""))
            cls._raw(api.PurgeRequest(key=key))
            return ours
        except Exception:  # noqa: BLE001
            return False

    @staticmethod
    def _ensure(proc) -> bool:
        import socket

        from cascade.shm import api

        t0 = time.time()
        while time.time() - t0 < 45 and proc.is_alive():
            s = socket.socket(socket.AF_INET, socket.SOCK_DGRAM)
            try:
                s.settimeout(0.3)
                s.connect(("localhost", api.get_client_port()))
                s.send(api.ser(api.StatusInquiry()))
                r = api.deser(s.recv(1024))
                if isinstance(r, api.OkResponse):
                    # somebody answers on that port: make sure it is OUR child (a child whose bind failed because another
                    # process owns the port exits within moments)
                    time.sleep(0.3)
                    return proc.is_alive()
            except OSError:
                time.sleep(0.05)
            finally:
                s.close()
        return False

    def segments_total(self) -> int:
        tot = 0
        for f in glob.glob(f"/dev/shm/{self.prefix}*"):
            try:
                tot += os.stat(f).st_size
            except FileNotFoundError:
                pass
        return tot

    def stop(self) -> None:
        if self.proc is None:
            return
        try:
            os.kill(self.proc.pid, signal.SIGTERM)
        except ProcessLookupError:
            pass
        self.proc.join(5)
        if self.proc.is_alive():
            self.proc.kill()
            self.proc.join(5)
        for f in glob.glob(f"/dev/shm/{self.prefix}*"):
            try:
                os.unlink(f)
            except OSError:
                pass


class _Abort(Exception):
    pass


class Run:
    """Executes one case. breaches: list of (family, clause, message)."""

    def __init__(self, case: dict, port: int, prefix: str):
        self.case = case
        self.capacity = case["capacity"]
        self.nthreads = len(case["threads"])
        self.port = port
        self.prefix = prefix
        self.breaches: list[tuple[str, str, str]] = []
        self.timeouts: list[str] = []
        self.stats = {"reads_ok": 0, "peeks_ok": 0, "peeks_absent": 0, "writes": 0, "rewrites": 0, "purges": 0, "conflicts_ok": 0,
                      "oversize_refused": 0, "held": 0, "absent_ok": 0, "quiescent_checks": 0, "evictions_seen": 0,
                      "read_after_maybe_evicted": 0}
        self.lock = threading.Lock()
        self.stop_flag = False

    def breach(self, fam: str, clause: str, msg: str) -> None:
        with self.lock:
            self.breaches.append((fam, clause, msg))
            self.stop_flag = True

    def server_alive(self) -> bool:
        srv = getattr(self, "srv", None)
        return bool(srv and srv.proc and srv.proc.is_alive())

    def bump(self, k: str, n: int = 1) -> None:
        with self.lock:
            self.stats[k] += n

    # ---- one client thread
    def _thread(self, ti: int, phases: list[list[list]], barrier: threading.Barrier) -> None:
        from cascade.shm import client

        # owner's model: key -> {"inc": int, "size": int, "state": present|absent|maybe}
        model: dict[str, dict] = {}
        incs: dict[str, int] = {}
        held: list[tuple[str, object]] = []

        def key(j: int, owner: int = ti) -> str:
            return f"t{owner}k{j}"

        def verify(k: str, buf, who: str, expect_inc: int | None) -> None:
            try:
                parts = buf.deser_fun.split("#")
                ok = len(parts) == 3 and parts[0] == k
                if ok:
                    inc, size = int(parts[1]), int(parts[2])
                    data = bytes(buf.view())
                    if buf.l != size or data != content(k, inc, size):
                        self.breach("C09", "bytes-differ", f"{who} of {k}: got {buf.l} bytes {data[:12]!r}… labelled {buf.deser_fun!r}; "
                                    f"expected the {size} bytes written as incarnation {inc}")
                    elif expect_inc is not None and inc != expect_inc:
                        self.breach("C09", "stale-incarnation", f"{who} of {k}: incarnation {inc} came back, the key currently holds "
                                    f"incarnation {expect_inc}")
                else:
                    self.breach("C09", "wrong-dataset", f"{who} of {k}: the buffer handed out is labelled {buf.deser_fun!r}")
            except Exception as e:  # noqa: BLE001
                self.breach("C09", "unreadable", f"{who} of {k}: buffer unusable: {e!r}")

        try:
            for phase in phases:
                for op in phase:
                    if self.stop_flag:
                        raise _Abort()
                    kind = op[0]
                    try:
                        if kind == "write":
                            k, size = key(op[1]), op[2]
                            m = model.get(k, {"state": "absent"})
                            if size > self.capacity:
                                try:
                                    b = client.allocate(k, size, "x", timeout_sec=CALL_TIMEOUT)
                                    b.close()
                                    self.breach("C08", "oversize-granted", f"allocate({k}, {size}) granted with capacity {self.capacity}")
                                except client.ConflictError:
                                    pass
                                except ValueError:
                                    self.bump("oversize_refused")
                                continue
                            inc = incs.get(k, 0) + 1
                            try:
                                b = client.allocate(k, size, f"{k}#{inc}#{size}", timeout_sec=CALL_TIMEOUT)
                            except client.ConflictError:
                                if m["state"] == "absent":
                                    self.breach("C09", "conflict-on-absent", f"allocate({k}) answered conflict although the key was never "
                                                f"written or its purge had been observed complete")
                                else:
                                    self.bump("conflicts_ok")  # "maybe" stays "maybe": a delayed purge may still take effect later
                                continue
                            if m["state"] == "present":
                                b.close()
                                self.breach("C09", "double-allocate", f"allocate({k}) granted while incarnation {m['inc']} exists")
                                continue
                            incs[k] = inc
                            b.view()[:size] = content(k, inc, size)
                            b.close()
                            if m["state"] == "maybe" or inc > 1:
                                self.bump("rewrites")
                            model[k] = {"state": "present", "inc": inc, "size": size}
                            self.bump("writes")
                        elif kind in ("read", "hold"):
                            k = key(op[1])
                            m = model.get(k, {"state": "absent"})
                            try:
                                b = client.get(k, timeout_sec=CALL_TIMEOUT)
                            except (ValueError, KeyError) as e:
                                if isinstance(e, TimeoutError):
                                    raise
                                if m["state"] == "present":
                                    self.breach("C09", "lost", f"get({k}) failed with {e!r} although incarnation {m['inc']} was written and "
                                                f"never purged")
                                else:
                                    self.bump("absent_ok")
                                    if m["state"] == "maybe":
                                        model[k] = {"state": "absent"}
                                continue
                            if m["state"] == "absent":
                                b.close()
                                self.breach("C09", "resurrected", f"get({k}) handed out a buffer ({b.deser_fun!r}) for a key that does not exist")
                                continue
                            verify(k, b, "read", m["inc"])
                            self.bump("reads_ok")
                            if kind == "hold" and len(held) < 2:
                                held.append((k, b))
                                self.bump("held")
                            else:
                                b.close()
                        elif kind == "release":
                            if held:
                                k, b = held.pop(op[1] % len(held))
                                # a held buffer must still show its bytes (protection in use), whatever happened meanwhile
                                verify(k, b, "held read", None)
                                b.close()
                        elif kind == "purge":
                            k = key(op[1])
                            m = model.get(k, {"state": "absent"})
                            if m["state"] == "absent":
                                continue
                            client.purge(k)
                            m["state"] = "maybe"  # delayed while read / while a disk job runs; skipped while on disk
                            model[k] = m
                            self.bump("purges")
                        elif kind == "peek":
                            owner = op[1] % self.nthreads
                            k = key(op[2], owner)
                            try:
                                b = client.get(k, timeout_sec=CALL_TIMEOUT)
                            except (ValueError, KeyError) as e:
                                if isinstance(e, TimeoutError):
                                    raise
                                self.bump("peeks_absent")
                                continue
                            verify(k, b, "peek", None)
                            b.close()
                            self.bump("peeks_ok")
                        elif kind == "free":
                            fs = client.get_free_space()
                            if not (0 <= fs <= self.capacity):
                                self.breach("C08", "free-space-range", f"reported free space {fs} with capacity {self.capacity}")
                    except TypeError as e:
                        self.breach("C09", "mispaired-response", f"thread {ti}: {op}: the client was handed a response of the wrong class: {e!r}")
                        raise _Abort()
                    except TimeoutError:
                        with self.lock:
                            self.timeouts.append(f"thread {ti}: {op} not served within {CALL_TIMEOUT:.0f}s")
                            self.stop_flag = True
                        raise _Abort()
                    except _Abort:
                        raise
                    except Exception as e:  # noqa: BLE001
                        # an exception that is none of the store's documented answers to this request. If it comes out of the
                        # library (innermost frame in the repository's code) the exchange itself broke -- socket misuse, a
                        # response meant for another request, an undecodable datagram; otherwise it is this harness's own bug
                        import traceback

                        tb = traceback.extract_tb(e.__traceback__)
                        lib = [f for f in tb if "/src/cascade/" in f.filename]
                        if lib:  # the exception came out of (or through) the library: e.g. a granted get whose segment does not exist
                            alive = self.server_alive()
                            self.breach("C09", "client-call-raises" if alive else "server-died",
                                        f"thread {ti}: {op}: the client call raised {e!r} at {lib[-1].name} "
                                        f"({'the server process is alive' if alive else 'the server process has ended'})")
                            raise _Abort()
                        raise
                # end of phase: close nothing (held readers persist), wait for everybody, the main thread checks the books
                self.present_bytes[ti] = sum(m["size"] for m in model.values() if m["state"] == "present")
                barrier.wait(timeout=CALL_TIMEOUT * 4)
                barrier.wait(timeout=CALL_TIMEOUT * 4)
        except (_Abort, threading.BrokenBarrierError):
            barrier.abort()
        except BaseException as e:  # noqa: BLE001
            import traceback

            with self.lock:
                self.breaches.append(("HARNESS", "thread-error", f"thread {ti}: {e!r}\n{traceback.format_exc()[-1500:]}"))
                self.stop_flag = True
            barrier.abort()
        finally:
            for _, b in held:
                try:
                    b.close()
                except Exception:  # noqa: BLE001
                    pass

    def _books(self, srv: Server, when: str) -> None:
        """Quiescent point: every writer closed, no request in flight. Disk jobs may still be finishing, so the books must
        balance within a few seconds: reported free space == capacity - total size of the segments that exist."""
        from cascade.shm import api

        def free_space() -> int:
            # own socket with a time-out: the library's client would block for ever on a server that has died
            r = Server._raw(api.FreeSpaceRequest(), timeout=10.0)
            return r.free_space

        deadline = time.time() + 8.0
        last = None
        while True:
            try:
                fs = free_space()
                seg = srv.segments_total()
                fs2 = free_space()
            except Exception as e:  # noqa: BLE001
                self.breach("C09", "server-died" if not self.server_alive() else "client-call-raises",
                            f"{when}: the free-space query got no answer ({e!r}); server process alive: {self.server_alive()}")
                return
            if fs == fs2:
                last = (fs, seg)
                if seg > self.capacity:
                    pass
                elif fs == self.capacity - seg:
                    self.stats["quiescent_checks"] += 1
                    if seg < sum(self.present_bytes):
                        self.stats["evictions_seen"] += 1
                    return
            if time.time() > deadline:
                break
            time.sleep(0.05)
        fs, seg = last if last else (None, None)
        if seg is not None and seg > self.capacity:
            self.breach("C08", "physical", f"{when}: segments on /dev/shm total {seg} bytes, capacity {self.capacity}")
        else:
            self.breach("C08", "free-space", f"{when}: with no request in flight the store reports {fs} free bytes, capacity {self.capacity}, "
                        f"segments present total {seg} (expected free == capacity - segments) for 8 s")

    def execute(self) -> None:
        srv = Server(self.port, self.capacity, self.prefix)
        self.srv = srv
        try:
            nph = max(len(t) for t in self.case["threads"])
            scripts = [t + [[]] * (nph - len(t)) for t in self.case["threads"]]
            barrier = threading.Barrier(self.nthreads + 1)
            self.present_bytes = [0] * self.nthreads
            ths = [threading.Thread(target=self._thread, args=(i, scripts[i], barrier), daemon=True) for i in range(self.nthreads)]
            for t in ths:
                t.start()
            try:
                for ph in range(nph):
                    barrier.wait(timeout=CALL_TIMEOUT * (3 + sum(len(s[ph]) for s in scripts)))
                    if not self.stop_flag:
                        self._books(srv, f"after phase {ph}")
                    barrier.wait(timeout=CALL_TIMEOUT * 4)
            except threading.BrokenBarrierError:
                pass
            for t in ths:
                t.join(CALL_TIMEOUT * 2)
            if any(t.is_alive() for t in ths) and not self.breaches and not self.timeouts:
                self.timeouts.append("a client thread did not finish")
        finally:
            srv.stop()


def run_case(case: dict, port: int, prefix: str) -> Run:
    r = Run(case, port, prefix)
    r.execute()
    harness = [b for b in r.breaches if b[0] == "HARNESS"]
    if harness:
        raise HarnessError(harness[0][2])
    return r


def cases(draw):
    """Hypothesis strategy body (use with st.composite)."""
    from hypothesis import strategies as st

    nthreads = draw(st.integers(2, 6))
    capacity = draw(st.sampled_from([96, 256, 700, 2048, 2048, 6 * nthreads * 4096, 6 * nthreads * 8192]))
    nkeys = draw(st.integers(3, 16))
    # per thread at most 3 buffers are pinned at a time (one being written or peeked, two held): pinned <= capacity / 2, so that
    # every request can be served by evicting idle datasets and a time-out is never the script's own doing
    maxsize = max(1, capacity // (6 * nthreads))
    nph = draw(st.integers(1, 3))
    size = st.one_of(st.integers(max(1, maxsize // 2), maxsize), st.just(maxsize), st.integers(1, maxsize))
    if maxsize >= 4096:  # the disk code moves data in 4096-byte chunks: sizes at and around the multiples
        size = st.one_of(size, st.sampled_from([s_ for s_ in (4095, 4096, 4097, 8191, 8192) if s_ <= maxsize]))
    k = st.integers(0, nkeys - 1)
    w = st.tuples(st.just("write"), k, size)
    mix = st.one_of(
        w, w, w,
        st.tuples(st.just("read"), k), st.tuples(st.just("read"), k), st.tuples(st.just("read"), k),
        st.tuples(st.just("hold"), k),
        st.tuples(st.just("release"), st.integers(0, 1)),
        st.tuples(st.just("purge"), k),
        st.tuples(st.just("peek"), st.integers(0, 5), k),
        st.tuples(st.just("free")),
        st.tuples(st.just("write"), k, st.integers(capacity + 1, capacity + 9)),
        st.tuples(st.just("rewrite"), k, size), st.tuples(st.just("rewrite"), k, st.just(maxsize)),
    )
    threads = []
    for _ in range(nthreads):
        phases = []
        for ph in range(nph):
            ops = []
            for o in draw(st.lists(mix, min_size=3, max_size=30)):
                if o[0] == "rewrite":  # macro: bring the key back into memory, purge it, write it again (same or different size)
                    ops += [["read", o[1]], ["purge", o[1]], ["write", o[1], o[2]]]
                else:
                    ops.append(list(o))
            if ph == 0:  # fill first: every key written once, in a generated order, so that later reads find data and memory is tight
                order = draw(st.permutations(range(nkeys)))
                ops = [["write", j, draw(size)] for j in order] + ops
            phases.append(ops)
        threads.append(phases)
    return {"capacity": capacity, "threads": threads}
