"""Verification harness for earthkit-workflows / cascade (property-based testing and fuzzing).

Importing this package puts /repo/src first on sys.path: site-packages contains an unrelated
`cascade` distribution that would otherwise shadow the repository's package, and this is also
what makes every check follow edits of /repo's working tree (nothing is built or installed).
"""

import os
import sys

REPO = os.environ.get("VERIF_REPO", "/repo")
_SRC = os.path.join(REPO, "src")
if _SRC in sys.path:
    sys.path.remove(_SRC)
sys.path.insert(0, _SRC)
os.environ.setdefault("ECMWF_EARTHKIT_WORKFLOWS_VERIF", "1")
VERIF = os.path.dirname(os.path.dirname(os.path.abspath(__file__)))

import logging

if not os.environ.get("VERIF_DEBUG"):
    logging.disable(logging.CRITICAL)

import warnings

if not os.environ.get("VERIF_DEBUG"):
    warnings.filterwarnings("ignore")
