"""Sequential reference evaluator of a JobInstance, written from the property statement: topological order, static arguments,
upstream values bound by declared position / keyword, i-th yielded value <-> i-th output in the job's documented output order
(key-sorted; numeric names in numeric order). Shares no code with cascade.executor.runner."""

from __future__ import annotations

from base64 import b64decode
from typing import Any

import cloudpickle


def _order(keys):
    ks = list(keys)
    return sorted(ks, key=lambda k: (0, int(k), "") if k.isdecimal() else (1, 0, k))


def evaluate(job) -> dict[tuple[str, str], Any]:
    deps: dict[str, set[str]] = {t: set() for t in job.tasks}
    for e in job.edges:
        deps[e.sink_task].add(e.source.task)
    done: list[str] = []
    vals: dict[tuple[str, str], Any] = {}
    while len(done) < len(job.tasks):
        ready = sorted(t for t in job.tasks if t not in done and deps[t] <= set(done))
        if not ready:
            raise ValueError("job has a cycle")
        for t in ready:
            inst = job.tasks[t]
            f = cloudpickle.loads(b64decode(inst.definition.func))
            pos: dict[int, Any] = {int(k): v for k, v in inst.static_input_ps.items()}
            kw: dict[str, Any] = dict(inst.static_input_kw)
            for e in job.edges:
                if e.sink_task != t:
                    continue
                v = vals[(e.source.task, e.source.output)]
                if e.sink_input_kw is not None:
                    kw[e.sink_input_kw] = v
                else:
                    pos[e.sink_input_ps] = v
            n = (max(pos) + 1) if pos else 0
            args = [pos.get(i) for i in range(n)]
            r = f(*args, **kw)
            outs = _order(inst.definition.output_schema.keys())
            if len(outs) == 1:
                vals[(t, outs[0])] = r
            else:
                rs = list(r)
                if len(rs) != len(outs):
                    raise ValueError(f"task {t} yields {len(rs)} values for {len(outs)} outputs")
                for o, v in zip(outs, rs):
                    vals[(t, o)] = v
            done.append(t)
    return vals
