"""Fluent program generator, NumPy model of every fluent operation and the reference interpreter of Action.graph().

program = {"src": {"dims": [..], "sizes": [..], "coords": [[..]..], "ishape": [..], "data": [flat ints], "xr": bool}, "ops": [op..]}

The NumPy model keeps the *stacked* array M of shape node_sizes + internal_shape together with dims and the coordinate values
of every dimension; every op transforms (M, dims, coords) with NumPy directly. The interpreter evaluates the graph the
Action denotes by plain substitution (no lowering, no scheduler).
"""

from __future__ import annotations

from typing import Any

import numpy as np
import xarray as xr
from hypothesis import strategies as st

from . import REPO  # noqa: F401

from earthkit.workflows import backends, fluent  # noqa: E402

IDIMS = ["i0", "i1"]
REDUCTIONS = ["sum", "mean", "std", "min", "max", "prod"]
NPRED = {"sum": np.sum, "mean": np.mean, "std": np.std, "min": np.min, "max": np.max, "prod": np.prod}
ARITH = ["add", "subtract", "multiply", "divide", "power"]
NPARITH = {"add": np.add, "subtract": np.subtract, "multiply": np.multiply, "divide": np.divide, "power": np.power}

_SOURCES: dict[int, Any] = {}


def source_value(key: int, idx: int):
    return _SOURCES[key][idx]


def neg(x):
    return -x


def add1(x):
    return x + 1


def addk(x, k):
    return x + k


def usersum(*xs):
    r = xs[0]
    for y in xs[1:]:
        r = r + y
    return r


def gen3(x):
    yield x
    yield x + 10
    yield x + 20


def gen2(x):
    yield x * 2
    yield x * 3


UNARY = {"neg": neg, "add1": add1}
GENS = {"gen2": (gen2, 2, lambda a: [a * 2, a * 3]), "gen3": (gen3, 3, lambda a: [a, a + 10, a + 20])}


# ------------------------------------------------------------------------------------------------ interpreter

def evaluate(action) -> dict:
    """id(node) -> value (list of values for multi-output nodes) for every node reachable from the action's node array."""
    memo: dict[int, Any] = {}

    def val(node):
        k = id(node)
        if k in memo:
            return memo[k]
        func, args, kwargs = node.payload
        ins = {name: out_val(src) for name, src in node.inputs.items()}
        a = [ins[x] if (isinstance(x, str) and x in ins) else x for x in args]
        with np.errstate(all="ignore"):
            r = func(*a, **kwargs)
        if len(node.outputs) > 1:
            r = list(r)
        memo[k] = r
        return r

    def out_val(out):
        v = val(out.parent)
        if len(out.parent.outputs) > 1:
            return v[out.parent.outputs.index(out.name)]
        return v

    def element(x):
        return out_val(x) if hasattr(x, "parent") else val(x)

    return {"element": element}


# ------------------------------------------------------------------------------------------------ generator

@st.composite
def programs(draw, max_ops: int = 4, allow_xr: bool = True, ops_pool: list[str] | None = None):
    nd = draw(st.integers(1, 3))
    dims = ["x", "y", "z"][:nd]
    sizes = [draw(st.sampled_from([1, 2, 3, 3, 4, 4])) for _ in dims]
    if draw(st.integers(0, 5)) == 0:
        # one long dimension: nodes with more than ten inputs (input10 sorts before input2 as a string)
        sizes[draw(st.integers(0, nd - 1))] = draw(st.sampled_from([11, 12]))
        for j in range(nd):
            if sizes[j] < 11:
                sizes[j] = min(sizes[j], 2)
    coords = []
    for s in sizes:
        start = draw(st.integers(-2, 5))
        step = draw(st.integers(1, 3))
        coords.append([start + step * i for i in range(s)])
    ishape = draw(st.lists(st.integers(1, 3), min_size=0, max_size=2))
    n = int(np.prod(sizes)) * int(np.prod(ishape)) if ishape else int(np.prod(sizes))
    data = draw(st.lists(st.integers(-3, 3), min_size=n, max_size=n))
    use_xr = bool(allow_xr and ishape and draw(st.integers(0, 3)) == 0)
    prog = {"src": {"dims": dims, "sizes": sizes, "coords": coords, "ishape": ishape, "data": data, "xr": use_xr}, "ops": []}
    # track the evolving shape to draw only applicable operations (construction, not rejection)
    cur_dims = list(dims)
    cur_sizes = dict(zip(dims, sizes))
    cur_coords = {d: list(c) for d, c in zip(dims, coords)}
    icur = list(ishape)
    fresh = iter(["n0", "n1", "n2", "n3", "n4", "n5"])
    nocoord: set[str] = set()  # dimensions created without coordinate labels (join along a plain name)
    pool = ops_pool or ["map", "reduce", "reduce", "reduce", "reduce", "reduce", "reduce_user", "stack", "concatenate", "concatenate",
                        "flatten", "expand", "expand", "select", "isel", "broadcast", "broadcast", "join_new", "arith_scalar",
                        "arith_action", "transform", "transform", "yields"]
    for _ in range(draw(st.sampled_from([1, 2, 2, 3, 3, 4, 4][: 2 * max_ops - 1]))):
        kind = draw(st.sampled_from(pool))
        big = [d for d in cur_dims if cur_sizes[d] >= 2]
        if kind == "map":
            if draw(st.integers(0, 3)) == 0:
                prog["ops"].append(["map_array"])  # an array of payloads, one per node
            else:
                prog["ops"].append(["map", draw(st.sampled_from(sorted(UNARY)))])
        elif kind in ("reduce", "reduce_user") and big:
            d = draw(st.sampled_from(big))
            if kind == "reduce_user":
                prog["ops"].append(["reduce_user", d, draw(st.booleans())])
                keep = prog["ops"][-1][2]
            else:
                f = draw(st.sampled_from(REDUCTIONS))
                b = draw(st.integers(0, cur_sizes[d] + 2))
                if cur_sizes[d] >= 3 and draw(st.booleans()):
                    b = draw(st.integers(2, cur_sizes[d] - 1))
                keep = draw(st.booleans())
                prog["ops"].append(["reduce", f, d, b, keep])
                if d == cur_dims[0] and draw(st.booleans()):
                    prog["ops"][-1].append(True)  # the dimension is not named: the documented default is the first one
            _drop(cur_dims, cur_sizes, cur_coords, d, keep)
        elif kind in ("stack", "flatten") and cur_dims and not use_xr:
            d = draw(st.sampled_from(cur_dims))
            ax = draw(st.integers(0, len(icur)))
            keep = draw(st.booleans()) if kind == "stack" else False
            if kind == "flatten" and cur_sizes[d] < 2:
                continue
            prog["ops"].append([kind, d, ax, keep])
            if kind == "flatten" and d == cur_dims[0] and draw(st.booleans()):
                prog["ops"][-1].append(True)  # flatten() without naming the dimension
            if cur_sizes[d] >= 2:
                icur.insert(ax, cur_sizes[d])
                _drop(cur_dims, cur_sizes, cur_coords, d, keep)
            elif not keep:
                _drop(cur_dims, cur_sizes, cur_coords, d, False)
        elif kind == "concatenate" and cur_dims and icur and not use_xr:
            d = draw(st.sampled_from(cur_dims))
            ax = draw(st.integers(0, len(icur) - 1))
            b = draw(st.integers(0, cur_sizes[d] + 1))
            keep = draw(st.booleans())
            prog["ops"].append(["concatenate", d, ax, b, keep])
            if cur_sizes[d] >= 2:
                icur[ax] *= cur_sizes[d]
                _drop(cur_dims, cur_sizes, cur_coords, d, keep)
            elif not keep:
                _drop(cur_dims, cur_sizes, cur_coords, d, False)
        elif kind == "expand" and icur:
            k = draw(st.integers(0, len(icur) - 1))
            size = draw(st.integers(1, icur[k]))
            axis = draw(st.integers(0, len(cur_dims)))
            name = next(fresh)
            vals = None if draw(st.booleans()) else [100 + 7 * i for i in range(size)]
            # the internal dimension is given as a non-negative or as the equivalent negative index
            prog["ops"].append(["expand", name, k, size, axis, vals, draw(st.integers(0, 2)) == 0])
            icur.pop(k)
            if size >= 2:
                cur_dims.insert(axis, name)
                cur_sizes[name] = size
                cur_coords[name] = vals if vals is not None else list(range(size))
        elif kind == "select" and [x for x in cur_dims if cur_coords[x] != ["\x00kept"] and x not in nocoord]:
            d = draw(st.sampled_from([x for x in cur_dims if cur_coords[x] != ["\x00kept"] and x not in nocoord]))
            if draw(st.booleans()):
                v = draw(st.sampled_from(cur_coords[d]))
                prog["ops"].append(["select", d, v])
                _drop(cur_dims, cur_sizes, cur_coords, d, False)
            else:
                vs = draw(st.lists(st.sampled_from(cur_coords[d]), min_size=1, max_size=len(cur_coords[d]), unique=True))
                vs = [c for c in cur_coords[d] if c in vs]
                prog["ops"].append(["select", d, vs])
                cur_coords[d] = vs
                cur_sizes[d] = len(vs)
        elif kind == "isel" and cur_dims:
            d = draw(st.sampled_from(cur_dims))
            i = draw(st.integers(0, cur_sizes[d] - 1))
            prog["ops"].append(["isel", d, i])
            _drop(cur_dims, cur_sizes, cur_coords, d, False)
        elif kind == "broadcast":
            name = next(fresh)
            size = draw(st.integers(1, 3))
            where = draw(st.sampled_from(["before", "after"]))
            prog["ops"].append(["broadcast", name, size, where])
            cur_sizes[name] = size
            cur_coords[name] = list(range(size))
            if where == "before":
                cur_dims.insert(0, name)
            else:
                cur_dims.append(name)
        elif kind == "join_new":
            name = next(fresh)
            prog["ops"].append(["join_new", name, draw(st.sampled_from(sorted(UNARY))), draw(st.booleans())])
            if not prog["ops"][-1][3]:
                nocoord.add(name)
            cur_dims.insert(0, name)
            cur_sizes[name] = 2
            cur_coords[name] = [0, 1]
        elif kind == "arith_scalar":
            prog["ops"].append(["arith_scalar", draw(st.sampled_from(ARITH)), draw(st.sampled_from([2, 3, 0.5, -1]))])
        elif kind == "arith_action":
            prog["ops"].append(["arith_action", draw(st.sampled_from(ARITH)), draw(st.sampled_from(sorted(UNARY) + ["self", "transposed"])),
                                draw(st.booleans())])
        elif kind == "transform":
            ks = draw(st.lists(st.integers(-2, 2), min_size=1, max_size=3))
            name = next(fresh)
            axis = draw(st.integers(0, len(cur_dims)))
            vals = None if draw(st.booleans()) else [50 + i for i in range(len(ks))]
            prog["ops"].append(["transform", name, ks, axis, vals])
            if len(ks) >= 2:
                cur_dims.insert(axis, name)
                cur_sizes[name] = len(ks)
                cur_coords[name] = vals if vals is not None else list(range(len(ks)))
        elif kind == "yields":
            g = draw(st.sampled_from(sorted(GENS)))
            name = next(fresh)
            labels = draw(st.booleans())
            n_out = GENS[g][1]
            prog["ops"].append(["yields", name, g, labels])
            cur_dims.append(name)
            cur_sizes[name] = n_out
            cur_coords[name] = [f"c{i}" for i in range(n_out)] if labels else list(range(n_out))
    return prog


def _drop(cur_dims, cur_sizes, cur_coords, d, keep):
    if keep:
        cur_coords[d] = ["\x00kept"]
        cur_sizes[d] = 1
    else:
        cur_dims.remove(d)
        cur_sizes.pop(d)
        cur_coords.pop(d)


# ------------------------------------------------------------------------------------------------ building + model

class Model:
    def __init__(self, M: np.ndarray, dims: list[str], coords: dict[str, list]):
        self.M = M
        self.dims = list(dims)
        self.coords = {d: list(c) for d, c in coords.items()}

    def copy(self) -> "Model":
        return Model(self.M.copy(), self.dims, self.coords)

    @property
    def nd(self) -> int:
        return len(self.dims)

    def at(self, coord: dict) -> np.ndarray:
        idx = tuple(self.coords[d].index(coord[d]) for d in self.dims)
        return self.M[idx]


def build_source(src: dict, key: int):
    sizes, ishape = src["sizes"], src["ishape"]
    M = np.asarray(src["data"], dtype="float64").reshape(list(sizes) + list(ishape))
    flat = M.reshape([int(np.prod(sizes))] + list(ishape))
    vals = []
    for i in range(flat.shape[0]):
        v = flat[i].copy()
        if src["xr"]:
            v = xr.DataArray(v, dims=IDIMS[: len(ishape)])
        vals.append(v)
    _SOURCES[key] = vals
    payloads = np.empty(sizes, dtype=object)
    for n, idx in enumerate(np.ndindex(*sizes)):
        payloads[idx] = fluent.Payload(source_value, [key, n])
    a = fluent.from_source(payloads, dims=list(src["dims"]), coords={d: list(c) for d, c in zip(src["dims"], src["coords"])})
    return a, Model(M, src["dims"], dict(zip(src["dims"], src["coords"])))


def apply_op(a, m: Model, op: list, src_xr: bool, hooks=None):
    """Applies one op to the real action and to the model. Returns (new action, new model, tags)."""
    k = op[0]
    tags: list[str] = [k]
    m = m.copy()
    nd = m.nd
    if k == "map":
        return a.map(UNARY[op[1]]), Model(UNARY[op[1]](m.M), m.dims, m.coords), tags
    if k == "map_array":
        from earthkit.workflows import fluent as _fl

        shape = tuple(len(m.coords[d]) for d in m.dims)
        pl = np.empty(shape, dtype=object)
        K = np.zeros(shape, dtype=float)
        for n_, idx in enumerate(np.ndindex(*shape)):
            pl[idx] = _fl.Payload(addk, [_fl.Node.input_name(0), 2 * n_ + 1])
            K[idx] = 2 * n_ + 1
        return a.map(pl), Model(m.M + K.reshape(shape + (1,) * (m.M.ndim - nd)), m.dims, m.coords), tags
    if k in ("reduce", "reduce_user"):
        if k == "reduce":
            _k, f, d, b, keep = op[:5]
            ax = m.dims.index(d)
            if len(op) > 5 and op[5]:
                tags.append("default_dim")
                res = getattr(a, f)(batch_size=b, keep_dim=keep)
            else:
                res = getattr(a, f)(dim=d, batch_size=b, keep_dim=keep)
            with np.errstate(all="ignore"):
                M2 = NPRED[f](m.M, axis=ax)
            size = len(m.coords[d])
            if 1 < b < size:
                tags.append("batched")
        else:
            _k, d, keep = op
            ax = m.dims.index(d)
            res = a.reduce(usersum, dim=d, keep_dim=keep)
            M2 = np.sum(m.M, axis=ax)
        return res, _reduced(m, d, ax, M2, keep), tags + (["keep_dim"] if keep else [])
    if k in ("stack", "flatten"):
        _k, d, iax, keep = op[:4]
        ax = m.dims.index(d)
        size = len(m.coords[d])
        if k == "flatten" and len(op) > 4 and op[4]:
            tags.append("default_dim")
            res = a.flatten(axis=iax)
        elif k == "flatten":
            res = a.flatten(dim=d, axis=iax)
        else:
            res = a.stack(d, keep_dim=keep, axis=iax)
        if size == 1:
            if keep:
                return res, m, tags + ["size1_noop"]
            return res, Model(np.take(m.M, 0, axis=ax), [x for x in m.dims if x != d], {x: c for x, c in m.coords.items() if x != d}), tags + ["size1_noop"]
        M2 = np.moveaxis(m.M, ax, nd - 1 + iax)
        return res, _reduced(m, d, ax, M2, keep), tags
    if k == "concatenate":
        _k, d, iax, b, keep = op
        ax = m.dims.index(d)
        size = len(m.coords[d])
        res = a.concatenate(d, batch_size=b, keep_dim=keep, backend_kwargs={"axis": iax})
        if size == 1:
            if keep:
                return res, m, tags + ["size1_noop"]
            return res, Model(np.take(m.M, 0, axis=ax), [x for x in m.dims if x != d], {x: c for x, c in m.coords.items() if x != d}), tags + ["size1_noop"]
        M2 = np.moveaxis(m.M, ax, nd - 1 + iax)  # (..., size, s_iax, ...)
        sh = list(M2.shape)
        p = nd - 1 + iax
        M2 = M2.reshape(sh[:p] + [sh[p] * sh[p + 1]] + sh[p + 2:])
        if 1 < b < size:
            tags.append("batched")
        return res, _reduced(m, d, ax, M2, keep), tags
    if k == "expand":
        _k, name, ik, size, axis, vals = op[:6]
        dim_arg = name if vals is None else (name, list(vals))
        internal = ik - (m.M.ndim - nd) if (len(op) > 6 and op[6]) else ik
        if internal < 0:
            tags.append("negative_internal_dim")
        res = a.expand(dim_arg, internal, dim_size=size, axis=axis)
        M2 = np.take(m.M, list(range(size)), axis=nd + ik)
        if size == 1:
            M2 = np.take(M2, 0, axis=nd + ik)
            return res, Model(M2, m.dims, m.coords), tags + ["single"]
        M2 = np.moveaxis(M2, nd + ik, axis)
        dims = m.dims[:axis] + [name] + m.dims[axis:]
        coords = dict(m.coords)
        coords[name] = list(vals) if vals is not None else list(range(size))
        if axis != nd:
            tags.append("new_dim_not_last")
        return res, Model(M2, dims, coords), tags
    if k == "select":
        _k, d, v = op
        ax = m.dims.index(d)
        res = a.select({d: v})
        if isinstance(v, list):
            idx = [m.coords[d].index(x) for x in v]
            coords = dict(m.coords)
            coords[d] = list(v)
            return res, Model(np.take(m.M, idx, axis=ax), m.dims, coords), tags
        i = m.coords[d].index(v)
        return res, Model(np.take(m.M, i, axis=ax), [x for x in m.dims if x != d], {x: c for x, c in m.coords.items() if x != d}), tags
    if k == "isel":
        _k, d, i = op
        ax = m.dims.index(d)
        res = a.isel({d: i})
        return res, Model(np.take(m.M, i, axis=ax), [x for x in m.dims if x != d], {x: c for x, c in m.coords.items() if x != d}), tags
    if k == "broadcast":
        _k, name, size, where = op
        # an action with the same dims plus one extra dimension, before or after the existing ones
        shape = [len(m.coords[d]) for d in m.dims]
        odims = ([name] + m.dims) if where == "before" else (m.dims + [name])
        oshape = ([size] + shape) if where == "before" else (shape + [size])
        nodes = np.empty(oshape, dtype=object)
        for idx in np.ndindex(*oshape):
            nodes[idx] = fluent.Node(fluent.Payload(source_value, [-1, 0]), name=f"other{idx}")
        ocoords = {d: m.coords[d] for d in m.dims}
        ocoords[name] = list(range(size))
        other = fluent.Action(xr.DataArray(nodes, dims=odims, coords=ocoords))
        res = a.broadcast(other)
        ax = 0 if where == "before" else nd
        M2 = np.stack([m.M] * size, axis=ax)
        coords = dict(m.coords)
        coords[name] = list(range(size))
        if where == "before":
            tags.append("new_dim_not_last")
        return res, Model(M2, odims, coords), tags + ["order_unspecified"]
    if k == "join_new":
        _k, name, f, as_coord = op
        other = a.map(UNARY[f])
        res = a.join(other, (name, [0, 1]) if as_coord else name)
        M2 = np.stack([m.M, UNARY[f](m.M)], axis=0)
        coords = dict(m.coords)
        coords[name] = [0, 1]
        return res, Model(M2, [name] + m.dims, coords), tags
    if k == "arith_scalar":
        _k, f, s = op
        res = getattr(a, f)(s)
        with np.errstate(all="ignore"):
            M2 = NPARITH[f](m.M, s)
        return res, Model(M2, m.dims, m.coords), tags
    if k == "arith_action":
        _k, f, of, shift = op
        if of == "transposed":
            # the same nodes (one map further) held in an array whose dimensions come in the reverse order: operands are matched
            # by dimension NAME, the order in which an action happens to hold its dimensions is not part of what it denotes
            of = "add1"
            other = a.map(UNARY[of])
            if len(a.nodes.dims) >= 2:
                other = fluent.Action(other.nodes.transpose(*reversed(other.nodes.dims)))
                tags.append("operand_dims_in_other_order")
            shift = False
        else:
            other = a if of == "self" else a.map(UNARY[of])
        labelled = [d for d in m.dims if d in a.nodes.coords]
        if shift and of != "self" and labelled:
            # an operand whose coordinate *values* differ (same shape): documented to be matched by position
            d0 = labelled[0]
            other = fluent.Action(other.nodes.assign_coords({d0: [1000 + i for i in range(len(m.coords[d0]))]}))
            tags.append("coords_differ")
        if hooks and "before_binary" in hooks:
            hooks["before_binary"](a, other)
        res = getattr(a, f)(other)
        if hooks and "after_binary" in hooks:
            hooks["after_binary"](a, other)
        O = m.M if of == "self" else UNARY[of](m.M)
        with np.errstate(all="ignore"):
            M2 = NPARITH[f](m.M, O)
        return res, Model(M2, m.dims, m.coords), tags
    if k == "transform":
        _k, name, ks, axis, vals = op
        params = [(kk,) for kk in ks]
        dim_arg = name if vals is None else (name, list(vals))
        res = a.transform(_tf, params, dim_arg, axis=axis)
        if len(ks) == 1:
            return res, Model(m.M + ks[0], m.dims, m.coords), tags + ["single"]
        M2 = np.stack([m.M + kk for kk in ks], axis=axis)
        dims = m.dims[:axis] + [name] + m.dims[axis:]
        coords = dict(m.coords)
        coords[name] = list(vals) if vals is not None else list(range(len(ks)))
        if axis != nd:
            tags.append("new_dim_not_last")
        return res, Model(M2, dims, coords), tags
    if k == "yields":
        _k, name, g, labels = op
        fn, n_out, mf = GENS[g]
        cs = [f"c{i}" for i in range(n_out)] if labels else list(range(n_out))
        res = a.map(fn, yields=(name, cs))
        M2 = np.stack(mf(m.M), axis=nd)
        coords = dict(m.coords)
        coords[name] = cs
        return res, Model(M2, m.dims + [name], coords), tags
    raise ValueError(op)


def _tf(action, k):
    return action.map(fluent.Payload(addk, [fluent.Node.input_name(0), k]))


def _reduced(m: Model, d: str, ax: int, M2: np.ndarray, keep: bool) -> Model:
    dims = [x for x in m.dims if x != d]
    coords = {x: c for x, c in m.coords.items() if x != d}
    if keep:
        c = m.coords[d]
        M2 = np.expand_dims(M2, ax)
        dims = dims[:ax] + [d] + dims[ax:]
        coords[d] = ["\x00kept"]  # label undocumented; the comparison adopts the actual one
    return Model(M2, dims, coords)
