"""Shared driver of the cluster-simulation checks C01-C04: one generated case = (job spec, cluster shape, schedule decisions,
optional injected executor failure); each property reads its own family of oracle clauses out of the same simulation."""

from __future__ import annotations

from hypothesis import strategies as st

from . import common
from .clustersim import SimAbort, simulate
from .common import Chooser, Stats, Violation
from .genjob import build_job, job_specs, same_value, spec_edges
from .refeval import evaluate

from cascade.low.core import DatasetId  # noqa: E402


@st.composite
def sim_cases(draw, max_tasks: int = 10, max_hosts: int = 4, max_workers: int = 3, bias: str = "none"):
    fanout = draw(st.booleans()) if bias == "replication" else draw(st.integers(0, 3)) == 0
    if fanout:
        spec = draw(fanout_specs(max_tasks=max_tasks))
    else:
        spec = draw(job_specs(max_tasks=max_tasks, ext="any"))
    nh = draw(st.integers(2 if fanout else 1, max_hosts))
    cluster = []
    for _ in range(nh):
        k = draw(st.integers(2 if fanout else 1, max(2, max_workers) + (1 if fanout else 0)))
        cluster.append({"workers": k, "gpu": [draw(st.integers(0, 3)) == 0 for _ in range(k)]})
    if fanout and any(t["gpu"] for t in spec["tasks"]):
        # hosts that have both kinds of workers, so that a GPU consumer and a CPU consumer of one dataset can be placed on the same
        # remote host in the same assignment phase
        small = draw(st.booleans())
        for h in cluster:
            if small or draw(st.integers(0, 3)) != 0:
                if small:
                    h["workers"] = 2  # one worker of each kind: more consumers of either kind than workers next to the data
                h["gpu"] = [True] + [False] * (h["workers"] - 1)
    if any(t["gpu"] for t in spec["tasks"]) and not any(any(h["gpu"]) for h in cluster):
        hi = draw(st.integers(0, nh - 1))
        wi = draw(st.integers(0, cluster[hi]["workers"] - 1))
        cluster[hi]["gpu"][wi] = True
    if bias == "replication" and spec["tasks"]:
        # requested outputs that also have consumers (on other hosts): make every consumed dataset an ext output sometimes
        if draw(st.integers(0, 2)) == 0:
            cons = sorted({(e[0], e[1]) for e in spec_edges(spec)})
            spec["ext"] = [list(c) for c in cons] + [e for e in spec["ext"] if tuple(e) not in cons]
    decisions = draw(st.lists(st.integers(0, 1 << 16), max_size=60))
    tail = draw(st.integers(0, 1 << 30))
    inject = draw(st.one_of(st.none(), st.none(), st.none(), st.integers(1, 6)))
    prelude = None
    if spec["tasks"] and draw(st.integers(0, 4)) == 0:
        prelude = draw(prelude_of(spec))
    return {"job": spec, "cluster": cluster, "decisions": decisions, "tail_seed": tail, "inject": inject,
            "reuse_pre": draw(st.integers(0, 5)) == 0, "prelude": prelude, "midtask": draw(st.booleans()),
            "slow_data": draw(st.sampled_from([False, True, "dups"])) if bias == "replication" else False}


@st.composite
def prelude_of(draw, spec: dict):
    """Another job with the SAME task names (and graph shape) but other output declarations, run to completion in the same process
    right before the job under test: a run must not depend on what an earlier run() in this process left behind (module-level
    caches keyed by task or dataset names, registries, class attributes)."""
    import copy

    pre = copy.deepcopy(spec)
    for t in pre["tasks"]:
        n = draw(st.sampled_from([1, 1, 2, 3, 11]))
        if n == 1:
            t["outs"] = [draw(st.sampled_from(["__default__", "0", "out", "zz"]))]
        else:
            t["outs"] = [str(k) for k in range(n)]
        t["gpu"] = False
    for t in pre["tasks"]:
        for sl in list(t["args"]) + list(t["kwargs"].values()):
            if "e" in sl:
                sl["e"] = [sl["e"][0], draw(st.sampled_from(pre["tasks"][sl["e"][0]]["outs"]))]
    pre["ext"] = [[i, t["outs"][-1]] for i, t in enumerate(pre["tasks"]) if draw(st.booleans())]
    pre["ext_mode"] = "ctor"
    return pre


@st.composite
def fanout_specs(draw, max_tasks: int = 10):
    """One or two producers whose outputs are consumed by many tasks (consumers end up on several hosts, in the same assign phase),
    optionally followed by a second level; some consumed datasets are requested outputs."""
    from .genjob import task_name

    nprod = draw(st.integers(1, 2))
    ncons = draw(st.integers(2, max(2, max_tasks - nprod - 1)))
    gpu_mix = draw(st.booleans())  # some consumers need a GPU, the others do not
    tasks = []
    for i in range(nprod):
        outs = draw(st.sampled_from([["__default__"], ["0", "1"]]))
        tasks.append({"name": task_name(i), "outs": outs, "gpu": False, "args": [{"s": i}], "kwargs": {}, "placeholders": False})
    for j in range(ncons):
        src = draw(st.integers(0, nprod - 1))
        args = [{"e": [src, draw(st.sampled_from(tasks[src]["outs"]))]}]
        if draw(st.integers(0, 3)) == 0:
            src2 = draw(st.integers(0, len(tasks) - 1))
            args.append({"e": [src2, draw(st.sampled_from(tasks[src2]["outs"]))]})
        tasks.append({"name": task_name(nprod + j), "outs": ["__default__"], "gpu": bool(gpu_mix and draw(st.booleans())), "args": args,
                      "kwargs": {}, "placeholders": False})
    ext = []
    for i, t in enumerate(tasks):
        for o in t["outs"]:
            if draw(st.integers(0, 2)) == 0:
                ext.append([i, o])
    if not ext:
        ext = [[len(tasks) - 1, "__default__"]]
    return {"tasks": tasks, "ext": ext}


def run_sim(case: dict):
    job = build_job(case["job"])
    if "log" in case:
        ch = Chooser(prefix=case["log"], tail_seed=None)
    else:
        ch = Chooser(prefix=case["decisions"], tail_seed=case["tail_seed"])
    if case.get("prelude"):
        # an unrelated job with the same task names runs to completion first (its own outcome is not judged here)
        try:
            simulate(build_job(case["prelude"]), [{"workers": 2, "gpu": [False, False]}],
                     Chooser(prefix=[], tail_seed=(case["tail_seed"] ^ 0x2F1D) & 0x3FFFFFFF))
        except Exception:  # noqa: BLE001
            pass
    pre = None
    if case.get("reuse_pre"):
        # the Preschedule of a job is computed once and may serve several runs (other cluster shapes, a retry): a first, deterministic
        # run on one worker, then the run under test with the SAME Preschedule object -- nothing of the first run may leak into it
        first = simulate(job, [{"workers": 1, "gpu": [any(t["gpu"] for t in case["job"]["tasks"])]}],
                         Chooser(prefix=[], tail_seed=(case["tail_seed"] ^ 0x5BD1) & 0x3FFFFFFF))
        pre = first.get("pre")
    res = simulate(job, case["cluster"], ch, case.get("inject"), slow_data=case.get("slow_data") or False, pre=pre,
                   midtask=bool(case.get("midtask")))
    res["job"] = job
    res["chooser"] = ch
    return res


def _not_delivered(state, ds, ref_value) -> bool:
    """True iff the run returned without a value for the requested output. `None` is a value a task may return; the controller's
    own "not fetched yet" placeholder (if this tree has one) is not."""
    import cascade.scheduler.core as sched_core

    if ds not in state.outputs:
        return True
    v = state.outputs[ds]
    placeholder = getattr(sched_core, "NOT_FETCHED", None)
    if placeholder is not None:
        return v is placeholder
    return v is None and ref_value is not None


def general_breaches(res: dict, case: dict) -> list[tuple[str, str, str]]:
    """Oracle clauses evaluated after the run (in addition to those the simulator records on line)."""
    sim = res["sim"]
    job = res["job"]
    out: list[tuple[str, str, str]] = [(b.family, b.clause, b.msg) for b in sim.breaches]
    injected = case.get("inject") is not None and sim.stats["recv_calls"] >= case["inject"]
    exc = res["exc"]
    if injected:
        if exc is None:
            out.append(("C03", "failure-swallowed", "an executor failure was raised by the bridge but run() returned normally"))
        if sim.shutdown_calls < 1:
            out.append(("C03", "no-shutdown-after-failure", "run() ended after an executor failure without shutting the executors down"))
        return out
    if exc is not None and not isinstance(exc, SimAbort):
        msg = f"run() raised {type(exc).__name__}: {exc}"
        out.append(("C03", "controller-raises", msg))
        out.append(("C01", "run-raises", msg))
        return out
    if isinstance(exc, SimAbort):
        out.append(("C01", "run-aborted", f"run() did not complete: {exc}"))
        if str(exc) == "deadlock":
            # nothing is running, queued or in flight any more: what has not been dispatched by now never will be
            for t in job.tasks:
                if t not in sim.dispatched:
                    out.append(("C02", "never-dispatched", f"task {t} was never dispatched (the run came to a standstill: no task running, "
                                                            f"no message or transfer in flight)"))
        return out
    state = res["state"]
    # completion
    missing = [t for t in job.tasks if t not in sim.completed]
    if missing:
        out.append(("C03", "tasks-not-completed", f"run() returned but tasks {sorted(missing)[:5]} never ran"))
    for t in job.tasks:
        if t not in sim.dispatched:
            out.append(("C02", "never-dispatched", f"task {t} was never dispatched"))
    cnt = {}
    for t, _w in sim.started:
        cnt[t] = cnt.get(t, 0) + 1
    for t, c in cnt.items():
        if c != 1:
            out.append(("C02", "executed-twice", f"task {t} was executed {c} times"))
    if sim.shutdown_calls != 1:
        out.append(("C03", "shutdown-count", f"shutdown called {sim.shutdown_calls} times"))
    # values
    ref = evaluate(job)
    for ds in job.ext_outputs:
        if _not_delivered(state, ds, ref[(ds.task, ds.output)]):
            out.append(("C01", "output-missing", f"requested output {ds} was not delivered"))
            out.append(("C03", "output-missing", f"run() returned without requested output {ds}"))
        elif not same_value(state.outputs[ds], ref[(ds.task, ds.output)]):
            out.append(("C01", "output-wrong", f"requested output {ds} = {state.outputs[ds]!r}, sequential evaluation gives {ref[(ds.task, ds.output)]!r}"))
    extra = set(state.outputs) - set(job.ext_outputs)
    if extra:
        out.append(("C01", "output-unrequested", f"outputs contain unrequested datasets {sorted(map(repr, extra))[:3]}"))
    for h, store in sim.store.items():
        for ev in store.events:
            if ev[0] in ("get-missing", "get-unwritten"):
                out.append(("C02", "read-before-arrival", f"a worker on {h} read dataset key {ev[1]} that was not (yet) there"))
    return out


def classify(res: dict, case: dict) -> dict:
    sim = res["sim"]
    spec = case["job"]
    es = spec_edges(spec)
    n_tasks = len(spec["tasks"])
    workers_ran = {w for _t, w in sim.started}
    hosts_ran = {w.host for w in workers_ran}
    multi_consumed = any(len(spec["tasks"][e[0]]["outs"]) > 1 for e in es)
    ext_nonsource = any(spec["tasks"][i]["args"] or spec["tasks"][i]["kwargs"] for i, _o in spec["ext"]
                        if any("e" in s for s in list(spec["tasks"][i]["args"]) + list(spec["tasks"][i]["kwargs"].values())))
    comps = _components(spec)
    consumed = {(e[0], e[1]) for e in es}
    ext_with_consumer = [tuple(x) for x in spec["ext"] if tuple(x) in consumed]
    purged_multi = {ds for (h, ds) in sim.purged if sum(1 for (h2, d2) in sim.purged if d2 == ds) >= 2}
    return {
        "tasks": n_tasks, "edges": len(es), "hosts": len(case["cluster"]), "workers": sum(h["workers"] for h in case["cluster"]),
        "transfers": sim.stats["transfers_stored"], "redundant": sim.stats["redundant_transfers"], "workers_ran": len(workers_ran),
        "hosts_ran": len(hosts_ran), "multi_consumed": multi_consumed, "ext_nonsource": ext_nonsource, "components": comps,
        "deferred": sim.stats["deferred_sequences"], "migrations": sim.host_migrations, "gpu_waits": sim.gpu_waits,
        "ext_with_consumer": len(ext_with_consumer), "purged_on_2_hosts": len(purged_multi), "purges": sim.stats["purges"],
        "gpu_tasks": sum(1 for t in spec["tasks"] if t["gpu"]), "injected": case.get("inject") is not None,
        "fetches": sim.stats["fetches"], "late_payload_ignored": sim.stats["late_payload_ignored"],
        "prelude": bool(case.get("prelude")), "midtask_preemptions": sum(1 for x in sim.trace if x.startswith("P:")),
    }


def _components(spec) -> int:
    n = len(spec["tasks"])
    parent = list(range(n))

    def find(x):
        while parent[x] != x:
            parent[x] = parent[parent[x]]
            x = parent[x]
        return x

    for e in spec_edges(spec):
        parent[find(e[0])] = find(e[2])
    return len({find(i) for i in range(n)})


def class_tags(c: dict) -> list[str]:
    tags = []
    if c["tasks"] == 0:
        tags.append("empty_job")
    if c["transfers"]:
        tags.append("inter_host_transfer")
    if c["redundant"]:
        tags.append("redundant_transfer")
    if c["workers_ran"] >= 2:
        tags.append("multi_worker")
    if c["components"] > c["hosts"]:
        tags.append("more_components_than_hosts")
    if c["components"] >= 2:
        tags.append("multi_component")
    if c["deferred"]:
        tags.append("deferred_sequence")
    if c["migrations"]:
        tags.append("host_migration")
    if c["gpu_tasks"]:
        tags.append("gpu_task")
    if c["gpu_waits"]:
        tags.append("gpu_wait")
    if c["ext_with_consumer"]:
        tags.append("ext_output_with_consumer")
    if c["purged_on_2_hosts"]:
        tags.append("purge_on_2_hosts")
    if c["injected"]:
        tags.append("injected_failure")
    if c["late_payload_ignored"]:
        tags.append("late_payload_ignored")
    if c.get("prelude"):
        tags.append("after_prelude_job_with_same_task_names")
    if c.get("midtask_preemptions"):
        tags.append("worker_preempted_between_publications")
    return tags


def make_body(family: str, nontrivial, stats: Stats, known_filter=None):
    """body(case, holder) for hyp_run: raises Violation for the first breach of `family`."""

    def body(case, holder):
        res = run_sim(case)
        br = general_breaches(res, case)
        mine = [b for b in br if b[0] == family]
        if known_filter is not None:
            mine = known_filter(mine, res, case, stats)
        if mine:
            holder["log"] = list(res["chooser"].log)
            f, clause, msg = mine[0]
            raise Violation(msg + (f" (+{len(mine) - 1} more)" if len(mine) > 1 else ""), clause)
        c = classify(res, case)
        return bool(nontrivial(c)), class_tags(c), res["trace_fp"]

    return body


def replay_case(family: str, case: dict, known_filter=None) -> None:
    inner = case
    if "case" in case and "log" in case:
        inner = dict(case["case"])
        inner["log"] = case["log"]
    res = run_sim(inner)
    mine = [b for b in general_breaches(res, inner) if b[0] == family]
    if known_filter is not None:
        mine = known_filter(mine, res, inner, Stats())
    if mine:
        raise Violation(mine[0][2], mine[0][1])


def shard(family: str, nontrivial, seed: int, cases_n: int, tier: str, bias: str = "none", known_filter=None) -> Stats:
    st_ = Stats()
    big = tier == "thorough"
    strat = sim_cases(max_tasks=14 if big else 10, max_hosts=6 if big else 4, max_workers=4 if big else 3, bias=bias)
    common.hyp_run(strat, make_body(family, nontrivial, st_, known_filter), st_, seed, cases_n)
    return st_
