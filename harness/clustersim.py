"""Simulated cluster behind the real controller.

Real: cascade.controller.impl.run, the scheduler (api, assign, core, graph.precompute), notify/act, the worker loop
runner.entrypoint.entrypoint (one lock-stepped coroutine per worker), runner.run, runner.memory.Memory, serde.
Simulated: transport, the executor's forwarding loop (re-implemented from executor.py recv_loop), the data server (transfer = copy
of the stored bytes + deser_fun; ConflictError => redundant => no announcement; purged => late payloads ignored) and the shm store
(fakeshm, one per host).

Every queue is FIFO per (sender, receiver) pair -- what zmq/TCP guarantees -- and nothing more: inside Bridge.recv_events the
Chooser repeatedly picks one enabled step until it picks "return the events that have arrived".
"""

from __future__ import annotations

import logging.config
from typing import Any

from . import fakezmq
from .common import Chooser, HarnessError, fingerprint
from .fakeshm import ConflictError, HostStore, ShmFault
from .lockstep import Coroutine, current

import cascade.controller.impl as impl  # noqa: E402
import cascade.executor.comms as comms  # noqa: E402
import cascade.executor.runner.entrypoint as entrypoint  # noqa: E402
import cascade.executor.runner.memory as memory  # noqa: E402
import cascade.executor.serde as serde  # noqa: E402
from cascade.executor.msg import (  # noqa: E402
    DatasetPublished,
    DatasetPurge,
    DatasetTransmitFailure,
    DatasetTransmitPayload,
    DatasetTransmitPayloadHeader,
    TaskFailure,
    TaskSequence,
    WorkerReady,
    WorkerShutdown,
)
from cascade.low.core import DatasetId, Environment, Worker, WorkerId  # noqa: E402
from cascade.low.views import param_source  # noqa: E402
from cascade.scheduler.graph import precompute  # noqa: E402


class SimAbort(Exception):
    """Raised inside the controller loop by the simulator (deadlock, livelock, injected failure)."""


class Breach:
    def __init__(self, family: str, clause: str, msg: str):
        self.family, self.clause, self.msg = family, clause, msg

    def __repr__(self) -> str:
        return f"{self.family}[{self.clause}] {self.msg}"


_CUR: dict[str, Any] = {"sim": None}
_PATCHED = [False]
_REAL: dict[str, Any] = {}


class _ShmRouter:
    """Stands in for the cascade.shm.client module inside runner.memory: routes to the current worker's host store."""

    ConflictError = ConflictError

    @staticmethod
    def _store() -> HostStore:
        sim = _CUR["sim"]
        return sim.store[sim.current_host]

    def allocate(self, key, l, deser_fun, timeout_sec=60.0):
        return self._store().allocate(key, l, deser_fun)

    def get(self, key, timeout_sec=60.0):
        return self._store().get(key)

    def purge(self, key):
        return self._store().purge(key)


class _ZmqProxy:
    PUSH, PULL, REQ, REP, LINGER, POLLIN = fakezmq.PUSH, fakezmq.PULL, fakezmq.REQ, fakezmq.REP, fakezmq.LINGER, fakezmq.POLLIN

    def Context(self, *a, **k):  # noqa: N802
        return _CUR["sim"].net.module()._ctx

    def Poller(self):  # noqa: N802
        return fakezmq.Poller(_CUR["sim"].net)


def _patch_once() -> None:
    if _PATCHED[0]:
        return
    _PATCHED[0] = True
    proxy = _ZmqProxy()
    comms.zmq = proxy
    comms.get_context = lambda: _CUR["sim"].net.module()._ctx
    entrypoint.zmq = proxy
    memory.shm_client = _ShmRouter()
    logging.config.dictConfig = lambda cfg: None  # entrypoint() reconfigures logging on every worker start
    _REAL["run"] = entrypoint.run
    _REAL["execute_sequence"] = entrypoint.execute_sequence
    _REAL["plan"] = impl.plan

    def run_wrapped(taskId, executionContext, mem):
        sim = _CUR["sim"]
        sim.on_task_start(mem.worker, taskId)
        _REAL["run"](taskId, executionContext, mem)
        sim.on_task_end(mem.worker, taskId)

    def seq_wrapped(taskSequence, mem, pckg, runnerContext):
        sim = _CUR["sim"]
        try:
            _REAL["execute_sequence"](taskSequence, mem, pckg, runnerContext)
        finally:
            sim.on_sequence_end(taskSequence.worker, taskSequence)

    def plan_wrapped(state, assignments):
        _CUR["sim"].on_round(state, assignments)
        return _REAL["plan"](state, assignments)

    entrypoint.run = run_wrapped
    entrypoint.execute_sequence = seq_wrapped
    impl.plan = plan_wrapped


class _SimNet(fakezmq.Net):
    """Routes what the worker coroutines send (un-framed callbacks to their executor) into the simulator's queues."""

    def __init__(self, sim: "ClusterSim"):
        super().__init__()
        self.sim = sim

    def transmit(self, addr: str, frames, sender=None) -> None:
        if addr.startswith("exec:"):
            host = addr[5:]
            m = serde.des_message(bytes(frames[0]))
            co = current()
            self.sim.q_exec[host].setdefault(co.name if co else "?", []).append(m)
            if co is not None and isinstance(m, DatasetPublished) and hasattr(self.sim, "on_worker_published"):
                self.sim.on_worker_published(co, m.ds)
            return
        super().transmit(addr, frames, sender)


class ClusterSim:
    def __init__(self, job, cluster: list[dict], chooser: Chooser, inject_failure_at: int | None = None,
                 max_idle_rounds: int = 100, slow_data: bool = False, midtask: bool = False):
        _patch_once()
        # midtask: a worker is pre-empted right after each publication it makes while a task runs (a generator's outputs become
        # visible, are consumed, even purged, while the generator is still running); resuming it is one more schedulable step
        self.midtask = midtask
        self.allow_park = True
        self.parked: set = set()
        self.pending_pub: dict = {}
        self.outputs_done: set[str] = set()
        self._pub_by_task: dict[str, set] = {}
        self.slow_data = slow_data  # schedule bias: data-server commands (transfers, fetches) tend to stay pending
        self.job = job
        self.ch = chooser
        self.breaches: list[Breach] = []
        self.trace: list[str] = []
        self.net = _SimNet(self)
        self.current_host = ""
        self.inject_failure_at = inject_failure_at
        self.max_idle_rounds = max_idle_rounds
        # cluster
        self.hosts: list[str] = []
        self.workers: dict[WorkerId, Worker] = {}
        self.host_workers: dict[str, list[WorkerId]] = {}
        for i, h in enumerate(cluster):
            name = f"h{i}"
            self.hosts.append(name)
            self.host_workers[name] = []
            for j in range(h["workers"]):
                w = WorkerId(name, f"w{j}")
                self.workers[w] = Worker(cpu=1, gpu=1 if h["gpu"][j] else 0, memory_mb=1024)
                self.host_workers[name].append(w)
        self.store = {h: HostStore(h) for h in self.hosts}
        self.datasets: dict[str, set] = {h: set() for h in self.hosts}  # executor.datasets
        self.invalid: dict[str, set] = {h: set() for h in self.hosts}  # data_server.invalid
        # queues, FIFO per sender
        self.q_exec: dict[str, dict[str, list]] = {h: {} for h in self.hosts}
        self.q_ds: dict[str, dict[str, list]] = {h: {} for h in self.hosts}
        self.q_worker: dict[WorkerId, list] = {w: [] for w in self.workers}
        self.q_ctrl: dict[str, list] = {}
        self.ctrl_events: list = []
        # ground truth
        self.consumers: dict[DatasetId, set[str]] = {}
        for e in job.edges:
            self.consumers.setdefault(e.source, set()).add(e.sink_task)
        self.inputs_of: dict[str, set[DatasetId]] = {t: set() for t in job.tasks}
        for e in job.edges:
            self.inputs_of[e.sink_task].add(e.source)
        self.dispatched: dict[str, WorkerId] = {}
        self.busy: dict[WorkerId, Any] = {}
        self.executing: dict[WorkerId, str] = {}
        self.started: list[tuple[str, WorkerId]] = []
        self.completed: set[str] = set()
        self.produced: set[DatasetId] = set()
        self.transfers: list[dict] = []  # {ds, src, dst, idx, status}
        self.purged: set[tuple[str, DatasetId]] = set()
        self.returned_payloads: set[DatasetId] = set()
        self.shutdown_calls = 0
        self.idx = 0
        # statistics
        self.stats = {"rounds": 0, "commands": 0, "events_returned": 0, "recv_calls": 0, "transfers_stored": 0, "redundant_transfers": 0,
                      "deferred_sequences": 0, "fetches": 0, "purges": 0, "unexpected_purges": 0, "steps": 0, "late_payload_ignored": 0}
        self._since_round = 1
        self._idle_rounds = 0
        self.cos: dict[WorkerId, Coroutine] = {}
        self.host_migrations = 0
        self._h2c: dict | None = None
        self.gpu_waits = 0

    # ------------------------------------------------------------------------------------------ helpers
    def breach(self, family: str, clause: str, msg: str) -> None:
        self.breaches.append(Breach(family, clause, msg))

    def _key(self, ds: DatasetId) -> str:
        return memory.ds2shmid(ds)

    def host_has(self, host: str, ds: DatasetId) -> bool:
        return self.store[host].has(self._key(ds))

    # ------------------------------------------------------------------------------------------ ground-truth hooks
    def on_task_start(self, worker: WorkerId, task: str) -> None:
        self.executing[worker] = task
        self.started.append((task, worker))
        for ds in self.inputs_of[task]:
            if not self.host_has(worker.host, ds):
                self.breach("C02", "started-before-arrival", f"worker {worker} starts {task} but input {ds} is not on {worker.host}")

    def on_task_end(self, worker: WorkerId, task: str) -> None:
        self.completed.add(task)
        self.executing.pop(worker, None)

    def on_sequence_end(self, worker: WorkerId, seq) -> None:
        self.busy.pop(worker, None)
        self.pending_pub.pop(worker, None)

    def on_worker_published(self, co, ds: DatasetId) -> None:
        """A worker coroutine has just sent the publication notice of `ds` to its executor."""
        w = next((x for x in self.workers if repr(x) == co.name), None)
        if w is None:
            return
        done = self._pub_by_task.setdefault(ds.task, set())
        done.add(ds.output)
        if ds.task in self.job.tasks and done >= set(self.job.tasks[ds.task].definition.output_schema.keys()):
            self.outputs_done.add(ds.task)  # from here on the controller may take the task for finished (it infers that from the
            # publication of the last output): its inputs are no longer needed, its worker counts as free
        pp = self.pending_pub.get(w)
        if pp is not None:
            pp.discard(ds)
            if not pp:
                self.pending_pub.pop(w)
                self.busy.pop(w, None)
        if self.midtask and self.allow_park and w in self.executing:
            self.parked.add(w)
            self.trace.append(f"P:{w}:{ds}")
            co.park()

    def on_round(self, state, assignments) -> None:
        self.stats["rounds"] += 1
        if self._since_round == 0:
            self._idle_rounds += 1
            if self._idle_rounds >= self.max_idle_rounds:
                self.breach("C03", "spin", f"{self._idle_rounds} consecutive controller rounds without a command or a wait")
                raise SimAbort("livelock")
        else:
            self._idle_rounds = 0
        self._since_round = 0
        bound = 3 * (self.stats["events_returned"] + self.stats["commands"]) + 10
        if self.stats["rounds"] > bound:
            self.breach("C03", "rounds-bound", f"{self.stats['rounds']} rounds for {self.stats['events_returned']} events and "
                        f"{self.stats['commands']} commands")
            raise SimAbort("too many rounds")
        h2c = dict(state.host2component)
        if self._h2c is not None:
            self.host_migrations += sum(1 for h in h2c if self._h2c.get(h) is not None and h2c[h] != self._h2c.get(h))
        self._h2c = h2c
        if any(self.job.tasks[t].definition.needs_gpu for c in state.components for t in c.computable) and state.idle_workers:
            self.gpu_waits += 1

    # ------------------------------------------------------------------------------------------ worker coroutines
    def start_workers(self) -> None:
        ps = param_source(self.job.edges)
        for w in self.workers:
            rc = entrypoint.RunnerContext(workerId=w, job=self.job, callback=f"exec:{w.host}", param_source=ps)
            co = Coroutine(lambda rc=rc: entrypoint.entrypoint(rc), name=repr(w))
            self.cos[w] = co
            self.current_host = w.host
            co.resume()
            self._check_co(w)
        for h in self.hosts:  # consume the WorkerReady notices (Executor.start_workers does)
            for sender, q in self.q_exec[h].items():
                self.q_exec[h][sender] = [m for m in q if not isinstance(m, WorkerReady)]

    def _check_co(self, w: WorkerId) -> None:
        co = self.cos[w]
        if co.done and not getattr(co, "expected_exit", False):
            co.expected_exit = True  # report once
            self.breach("C02", "worker-died", f"worker {w} loop died: {type(co.exc).__name__ if co.exc else 'exit'}: {co.exc}")

    def _on_block(self, sock) -> None:
        co = current()
        if co is None:
            raise HarnessError(f"driver thread blocked on {sock.addr}")
        co.park()

    def stop_workers(self) -> None:
        self.allow_park = False
        self.parked.clear()
        for w, co in self.cos.items():
            if co.done or not co.started:
                continue
            co.expected_exit = True
            self.net.inbox.setdefault(entrypoint.worker_address(w), []).append([serde.ser_message(WorkerShutdown())])
            self.current_host = w.host
            co.resume()

    # ------------------------------------------------------------------------------------------ Bridge interface
    def get_environment(self) -> Environment:
        return Environment(workers=dict(self.workers))

    def _cmd(self) -> None:
        self.stats["commands"] += 1
        self._since_round += 1

    def task_sequence(self, ts: TaskSequence) -> None:
        self._cmd()
        w = ts.worker
        self.trace.append(f"TS:{w}:{','.join(ts.tasks)}")
        if w not in self.workers:
            self.breach("C02", "unknown-worker", f"task sequence for unknown worker {w}")
            return
        if w in self.busy:
            self.breach("C02", "busy-worker", f"{ts.tasks} dispatched to {w} which is still busy with {self.busy[w]}")
        for t in ts.tasks:
            if t in self.dispatched:
                self.breach("C02", "double-dispatch", f"task {t} dispatched again (first to {self.dispatched[t]}, now to {w})")
            self.dispatched[t] = w
            if self.job.tasks[t].definition.needs_gpu and self.workers[w].gpu < 1:
                self.breach("C02", "gpu", f"gpu task {t} dispatched to cpu worker {w}")
            own = {DatasetId(t2, o) for t2 in ts.tasks for o in self.job.tasks[t2].definition.output_schema}
            for ds in self.inputs_of[t] - own:
                if ds not in self.produced:
                    self.breach("C02", "input-not-produced", f"task {t} dispatched before its input {ds} was produced")
                elif not self.host_has(w.host, ds) and not any(
                        tr["ds"] == ds and tr["dst"] == w.host and tr["status"] in ("pending", "inflight", "stored", "redundant")
                        and tr["src_had"] for tr in self.transfers):
                    self.breach("C02", "input-not-routed", f"task {t} dispatched to {w}: input {ds} is neither on {w.host} nor being transferred there from a host that holds it")
        self.busy[w] = list(ts.tasks)
        if ts.publish:
            self.pending_pub[w] = set(ts.publish)
        self.q_exec[w.host].setdefault("ctrl", []).append(ts)

    def transmit(self, ds: DatasetId, source: str, target: str) -> None:
        self._cmd()
        self.trace.append(f"TX:{ds}:{source}>{target}")
        if not self.host_has(source, ds):
            self.breach("C04", "transfer-from-missing", f"transfer of {ds} commanded from {source} which does not hold it")
        if (target, ds) in self.purged:
            self.breach("C04", "needed-after-purge", f"{ds} is transferred to {target} after it was purged there")
        tr = {"ds": ds, "src": source, "dst": target, "idx": self.idx, "status": "pending", "src_had": self.host_has(source, ds)}
        self.idx += 1
        self.transfers.append(tr)
        self.q_ds[source].setdefault("ctrl", []).append(("cmd", tr))

    def fetch(self, ds: DatasetId, source: str) -> None:
        self._cmd()
        self.stats["fetches"] += 1
        self.trace.append(f"FE:{ds}:{source}")
        if not self.host_has(source, ds):
            self.breach("C04", "fetch-from-missing", f"fetch of {ds} commanded from {source} which does not hold it")
        tr = {"ds": ds, "src": source, "dst": "controller", "idx": self.idx, "status": "pending", "src_had": self.host_has(source, ds)}
        self.idx += 1
        self.transfers.append(tr)
        self.q_ds[source].setdefault("ctrl", []).append(("cmd", tr))

    def purge(self, host: str, ds: DatasetId) -> None:
        self._cmd()
        self.stats["purges"] += 1
        self.trace.append(f"PU:{ds}:{host}")
        pending_consumers = [t for t in self.consumers.get(ds, ()) if t not in self.completed and t not in self.outputs_done]
        if pending_consumers:
            self.breach("C04", "purge-before-consumers", f"purge of {ds} at {host} while consumers {sorted(pending_consumers)} have not completed")
        if ds in self.job.ext_outputs and ds not in self.returned_payloads:
            self.breach("C04", "purge-before-delivery", f"purge of requested output {ds} at {host} before its value reached the caller")
        for tr in self.transfers:
            if tr["ds"] == ds and tr["src"] == host and tr["status"] == "pending":
                self.breach("C04", "purge-during-transfer", f"purge of {ds} at {host} while the {'fetch' if tr['dst'] == 'controller' else 'transfer'} "
                            f"#{tr['idx']} to {tr['dst']} commanded from it is unanswered")
        if not self.host_has(host, ds):
            self.breach("C04", "purge-missing", f"purge of {ds} at {host} which does not hold it")
        if (host, ds) in self.purged:
            self.breach("C04", "double-purge", f"{ds} purged twice at {host}")
        self.purged.add((host, ds))
        self.q_exec[host].setdefault("ctrl", []).append(DatasetPurge(ds=ds))

    def shutdown(self) -> None:
        self.shutdown_calls += 1
        self.trace.append("SHUTDOWN")

    # ------------------------------------------------------------------------------------------ steps
    def _enabled(self) -> list[tuple]:
        steps: list[tuple] = []
        for w in sorted(self.q_worker, key=repr):
            if w in self.parked:
                steps.append(("R", w))  # pre-empted in the middle of a task: its socket is not read until the task is over
            elif self.q_worker[w] and not self.cos[w].done:
                steps.append(("W", w))
        for h in self.hosts:
            for s in sorted(self.q_exec[h]):
                if self.q_exec[h][s]:
                    steps.append(("E", h, s))
            for s in sorted(self.q_ds[h]):
                if self.q_ds[h][s]:
                    steps.append(("D", h, s))
        for s in sorted(self.q_ctrl):
            if self.q_ctrl[s]:
                steps.append(("C", s))
        return steps

    def _step(self, st: tuple) -> None:
        self.stats["steps"] += 1
        kind = st[0]
        if kind == "R":
            w = st[1]
            self.parked.discard(w)
            self.trace.append(f"R:{w}")
            self.current_host = w.host
            self.cos[w].resume()
            self._check_co(w)
        elif kind == "W":
            w = st[1]
            m = self.q_worker[w].pop(0)
            if isinstance(m, TaskSequence):
                need = {ds for t in m.tasks for ds in self.inputs_of[t]}
                if any(not self.host_has(w.host, ds) for ds in need):
                    self.stats["deferred_sequences"] += 1
            self.trace.append(f"W:{w}:{type(m).__name__}")
            self.net.inbox.setdefault(entrypoint.worker_address(w), []).append([serde.ser_message(m)])
            self.current_host = w.host
            self.cos[w].resume()
            self._check_co(w)
        elif kind == "E":
            _k, h, s = st
            m = self.q_exec[h][s].pop(0)
            self.trace.append(f"E:{h}:{s}:{type(m).__name__}")
            if isinstance(m, TaskSequence):
                self.q_worker[m.worker].append(m)
            elif isinstance(m, DatasetPurge):
                if m.ds not in self.datasets[h]:
                    self.stats["unexpected_purges"] += 1
                else:
                    for w in self.host_workers[h]:
                        self.q_worker[w].append(m)
                    self.datasets[h].remove(m.ds)
                    self.q_ds[h].setdefault("exec", []).append(("purge", m.ds))
            elif isinstance(m, DatasetPublished):
                if m.transmit_idx is None:
                    self.produced.add(m.ds)
                for w in self.host_workers[h]:
                    self.q_worker[w].append(m)
                self.datasets[h].add(m.ds)
                self.q_ctrl.setdefault(h, []).append(m)
            elif isinstance(m, (TaskFailure, DatasetTransmitFailure)):
                self.q_ctrl.setdefault(h, []).append(m)
            elif isinstance(m, WorkerReady):
                pass
            else:
                raise HarnessError(f"executor {h} got {m!r}")
        elif kind == "D":
            _k, h, s = st
            what, x = self.q_ds[h][s].pop(0)
            self.trace.append(f"D:{h}:{s}:{what}")
            if what == "cmd":
                tr = x
                ds = tr["ds"]
                if ds in self.invalid[h] or not self.store[h].has(self._key(ds)):
                    tr["status"] = "failed"
                    self.q_exec[h].setdefault("ds", []).append(
                        DatasetTransmitFailure(host=h, detail=f"transmit #{tr['idx']} of {ds}: not present at {h}"))
                    return
                e = self.store[h].entries[self._key(ds)]
                payload = DatasetTransmitPayload(
                    header=DatasetTransmitPayloadHeader(confirm_address=f"ds:{h}", confirm_idx=tr["idx"], ds=ds, deser_fun=e["deser_fun"]),
                    value=bytes(e["data"]))
                tr["status"] = "inflight"
                if tr["dst"] == "controller":
                    self.q_ctrl.setdefault("ds:" + h, []).append(payload)
                else:
                    self.q_ds[tr["dst"]].setdefault("ds:" + h, []).append(("payload", (tr, payload)))
            elif what == "payload":
                tr, payload = x
                ds = payload.header.ds
                if ds in self.invalid[h]:
                    tr["status"] = "ignored"
                    self.stats["late_payload_ignored"] += 1
                    return
                try:
                    buf = self.store[h].allocate(self._key(ds), len(payload.value), payload.header.deser_fun)
                except ConflictError:
                    tr["status"] = "redundant"
                    self.stats["redundant_transfers"] += 1
                    return
                buf.view()[: len(payload.value)] = payload.value
                buf.close()
                tr["status"] = "stored"
                self.stats["transfers_stored"] += 1
                self.q_exec[h].setdefault("ds", []).append(DatasetPublished(ds=ds, origin=h, transmit_idx=payload.header.confirm_idx))
            elif what == "purge":
                self.store[h].purge(self._key(x))
                self.invalid[h].add(x)
        elif kind == "C":
            s = st[1]
            m = self.q_ctrl[s].pop(0)
            self.trace.append(f"C:{s}:{type(m).__name__}")
            self.ctrl_events.append(m)

    def recv_events(self) -> list:
        self.stats["recv_calls"] += 1
        self._since_round += 1
        if self.inject_failure_at is not None and self.stats["recv_calls"] == self.inject_failure_at:
            self.shutdown()
            raise ValueError("injected executor failure")
        while True:
            steps = self._enabled()
            can_return = any(isinstance(m, (DatasetPublished, DatasetTransmitPayload, TaskFailure, DatasetTransmitFailure))
                             for m in self.ctrl_events)
            if not steps and not can_return:
                for w, seq in sorted(self.busy.items(), key=repr):
                    need = {ds for t in seq for ds in self.inputs_of[t]}
                    if not self.cos[w].done and all(self.host_has(w.host, ds) for ds in need) and not any(t in self.completed for t in seq):
                        self.breach("C02", "sequence-never-started", f"worker {w} was given {seq}, every input is on {w.host} and was "
                                    f"announced, but the worker never started it")
                self.breach("C03", "wait-on-nothing", "controller waits for events but nothing is running, queued or in flight "
                            f"(dispatched {len(self.dispatched)}/{len(self.job.tasks)} tasks, completed {len(self.completed)})")
                raise SimAbort("deadlock")
            if self.slow_data:
                # every step is still possible at every point; commands waiting at a data server are just picked less often
                def _slow(st_):
                    if not (st_[0] == "D" and st_[2] == "ctrl"):
                        return False
                    if self.slow_data != "dups":
                        return True
                    # "dups": only commands that repeat an earlier command for the same (dataset, destination) stay pending: the
                    # first copy arrives quickly, its consumers run and complete, the redundant command is still unanswered
                    what, x = self.q_ds[st_[1]][st_[2]][0]
                    return what == "cmd" and any(t is not x and t["idx"] < x["idx"] and t["ds"] == x["ds"] and t["dst"] == x["dst"]
                                                 for t in self.transfers)

                weighted = [j for j, st_ in enumerate(steps) for _ in range(1 if _slow(st_) else (8 if self.slow_data == "dups" else 5))]
                if can_return:
                    weighted += [len(steps)] * (8 if self.slow_data == "dups" else 5)
                i = weighted[self.ch.choose(len(weighted))]
            elif self.parked:
                # a worker pre-empted in the middle of a task tends to stay so for a while: everything else -- forwarding, transfers,
                # other workers, the controller's next rounds -- is four times as likely as letting it continue (every step remains
                # possible at every point)
                weighted = [j for j, st_ in enumerate(steps) for _ in range(1 if st_[0] == "R" else 4)]
                if can_return:
                    weighted += [len(steps)] * 4
                i = weighted[self.ch.choose(len(weighted))]
            else:
                n = len(steps) + (1 if can_return else 0)
                i = self.ch.choose(n)
            if i == len(steps):
                break
            self._step(steps[i])
        evs = self.ctrl_events
        self.ctrl_events = []
        for m in evs:
            if isinstance(m, (TaskFailure, DatasetTransmitFailure)):
                self.trace.append("RET-FAILURE")
                self.shutdown()
                raise ValueError(m)
        for m in evs:
            if isinstance(m, DatasetTransmitPayload):
                self.returned_payloads.add(m.header.ds)
        self.stats["events_returned"] += len(evs)
        self.trace.append(f"RET:{len(evs)}")
        return evs


def simulate(job, cluster: list[dict], chooser: Chooser, inject_failure_at: int | None = None, slow_data: bool = False, pre=None,
             midtask: bool = False) -> dict:
    """Runs the real controller against the simulated cluster. Returns a result dict; never raises for what the code under test does."""
    sim = ClusterSim(job, cluster, chooser, inject_failure_at, slow_data=slow_data, midtask=midtask)
    _CUR["sim"] = sim
    sim.net.on_block = sim._on_block
    res: dict[str, Any] = {"sim": sim, "state": None, "exc": None}
    try:
        sim.start_workers()
        try:
            if pre is None:
                pre = precompute(job)
            res["pre"] = pre
            res["state"] = impl.run(job, sim, pre)
        except SimAbort as e:
            res["exc"] = e
        except Exception as e:  # noqa: BLE001 -- whatever escapes the controller is a finding for the caller to classify
            res["exc"] = e
    finally:
        try:
            sim.stop_workers()
        finally:
            _CUR["sim"] = sim  # stays current until the next simulate (coroutines are finished by now)
    res["trace_fp"] = fingerprint(sim.trace)
    return res
