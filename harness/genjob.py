"""Strategy for well-formed cascade JobInstances, as JSON-able *specs* plus a builder.

spec = {"tasks": [task...], "ext": [[task_index, output_name], ...]}
task = {"name": str, "outs": [str...], "gpu": bool, "args": [slot...], "kwargs": {param: slot},
        "placeholders": bool}
slot = {"s": <static json value>} | {"e": [source_task_index, output_name]} | {"e": [...], "d": <static default>}  (kwargs only)

Tasks are listed in a topological order (an edge always goes from a lower to a higher index); task *names*
are assigned through a generated permutation so that name order differs from topological order.

Task callables are recording functions: they return a short canonical string that is a hash of the task
name, the positional arguments in order and the sorted keyword arguments, so any mis-binding, mis-ordering
or mix-up of datasets changes the delivered value. Multi-output tasks are generators whose i-th yield is
`<that>#i`. They are cloud-pickled by value, exactly like user lambdas.
"""

from __future__ import annotations

import sys
from typing import Any

import cloudpickle
from hypothesis import strategies as st

from . import REPO  # noqa: F401  (sys.path side effect)

from cascade.low.core import (  # noqa: E402
    DatasetId,
    JobInstance,
    Task2TaskEdge,
    TaskDefinition,
    TaskInstance,
)


def make_fn(task_name: str, nout: int, short_by: int = 0):
    def fn(*args, **kwargs):
        import hashlib

        h = hashlib.blake2b(repr((args, sorted(kwargs.items()))).encode(), digest_size=8).hexdigest()
        base = task_name + ":" + h
        # a callable shared by tasks that declare different numbers of outputs is told how many to yield (static keyword "_n"),
        # like a user's split(x, n)
        n = kwargs.get("_n", nout)
        if n == 1:
            return base
        return (base + "#" + str(i) for i in range(n - short_by))

    return fn


VALUE_TYPES = ["str", "str", "str", "bytes", "bytearray", "empty", "none", "tuple", "frozenset", "bigbytes", "ndarray", "ndarray0"]


def with_value_type(fn, vt: str):
    """Wraps a recording callable so that what it returns / yields is the recorded string carried in another Python type: values
    travel through serde, shared memory and the fetch path, which may treat bytes-like, empty or None values specially."""
    if vt in (None, "str"):
        return fn

    def conv(x):
        if vt == "bytes":
            return x.encode()
        if vt == "bytearray":
            return bytearray(x.encode())
        if vt == "empty":
            return b""  # a value whose natural encoding has length zero
        if vt == "none":
            return None
        if vt == "tuple":
            return (x, len(x), None)
        if vt == "frozenset":
            return frozenset({x})
        if vt == "bigbytes":
            return x.encode() * 700  # larger than one datagram / one page
        if vt == "ndarray":
            import numpy as np

            return np.frombuffer(x.encode(), dtype=np.uint8).copy()  # what most real tasks return: a multi-element array
        if vt == "ndarray0":
            import numpy as np

            return np.float64(len(x))  # a NumPy scalar
        raise ValueError(vt)

    def wrapped(*args, **kwargs):
        import types

        r = fn(*args, **kwargs)
        if isinstance(r, types.GeneratorType):
            return (conv(v) for v in r)
        return conv(r)

    return wrapped


def same_value(a, b) -> bool:
    """Equality that also tells bytes from bytearray and a tuple from a list (== does not), and that works for arrays."""
    if type(a) is not type(b):
        return False
    if type(a).__module__ == "numpy":
        import numpy as np

        return bool(np.array_equal(a, b))
    return bool(a == b)


cloudpickle.register_pickle_by_value(sys.modules[__name__])

_static = st.one_of(
    st.integers(-5, 5),
    st.sampled_from(["", "a", "t0", "x y", "0"]),
    st.none(),
    st.booleans(),
    st.floats(allow_nan=False, allow_infinity=False, width=16),
    st.lists(st.integers(0, 3), max_size=2),
)

_kwnames = ["a", "b", "c", "x", "kw"]


def task_name(i: int) -> str:
    return f"t{i:02d}"


@st.composite
def job_specs(draw, max_tasks: int = 14, min_tasks: int = 0, max_outs: int = 4, gpu: bool = True,
              ext: str = "any", shape_bias: bool = True, with_serdes: bool = False) -> dict:
    n = draw(st.integers(min_tasks, max_tasks))
    perm = draw(st.permutations(list(range(n)))) if n else []
    padded = draw(st.booleans())  # "t2" vs "t02": with unpadded names string order and numeric order of task names differ
    # shape: probability of drawing an edge slot, and how far back sources are picked
    edge_pct = draw(st.sampled_from([0, 20, 50, 80, 100])) if shape_bias else 50
    chainy = draw(st.booleans())
    # a sixth of the jobs use task / output names with dots and other punctuation: graph expansion names inner nodes "parent.child",
    # and "task.output" is how a dataset id prints, so any encoding that goes through the printed form is ambiguous for them
    odd_names = draw(st.integers(0, 5)) == 0
    tname = (lambda k: (f"grp.t{k}" if k % 2 else f"n{k}.x.y")) if odd_names else (lambda k: task_name(k) if padded else f"t{k}")
    if not odd_names and draw(st.integers(0, 7)) == 0:
        # task names that are prefixes of one another (t1, t11, t111 ...): with numeric output names the concatenations
        # task + output of different datasets coincide ("t1" + "10" == "t11" + "0")
        tname = lambda k: "t" + "1" * (k + 1)  # noqa: E731
    tasks: list[dict] = []
    for i in range(n):
        nouts = draw(st.sampled_from([1, 1, 1, 1, 2, 2, 3, max_outs, max_outs, 11, 12] if max_outs >= 4 else [1, 1, 1, 2, 3, max_outs]))
        if nouts == 1:
            outs = [draw(st.sampled_from(["__default__", "0", "out"] + (["stats.mean", "a.b", "0.1", "x y", ".", "é.ü"] if odd_names else [])))]
        else:
            outs = [str(k) for k in range(nouts)]  # as the fluent API names them
            style = draw(st.integers(0, 5))
            if style == 0 and nouts <= 4:
                outs = draw(st.permutations((["m.upper", "m.lower", "a.b.c", "d"] if odd_names else ["upper", "lower", "mid", "aux"])[:nouts]))  # declared in any order; yields follow key order
            elif style == 1:
                outs = list(draw(st.permutations(outs)))  # numeric names, declared shuffled
            elif style == 2 and nouts <= 3:
                # numeric names that denote the same number ("1", "01", "001"): equal rank in the numeric order, the declared
                # order decides
                outs = list(draw(st.permutations(["1", "01", "001"][:nouts])))
        nargs = draw(st.sampled_from([0, 1, 1, 2, 2, 3, 3, 11, 12]))  # > 10 positions: "10" sorts before "2" as a string
        nkw = draw(st.integers(0, 2))

        def slot():
            if i > 0 and draw(st.integers(0, 99)) < edge_pct:
                src = i - 1 if (chainy and draw(st.booleans())) else draw(st.integers(0, i - 1))
                out = draw(st.sampled_from(tasks[src]["outs"]))
                return {"e": [src, out]}
            return {"s": draw(_static)}

        args = [slot() for _ in range(nargs)]
        kws = draw(st.lists(st.sampled_from(_kwnames), min_size=nkw, max_size=nkw, unique=True))
        kwargs = {k: slot() for k in kws}
        for k, sl in kwargs.items():
            # a keyword parameter fed by an edge may also carry a static default (TaskBuilder.from_callable copies signature defaults
            # into static_input_kw): the upstream value must win
            if "e" in sl and draw(st.booleans()):
                sl["d"] = draw(_static)
        # one callable used by several tasks with different declarations (other output names, other GPU requirement): whatever is
        # remembered per callable must not be taken for the task
        fn_of = None
        same_arity = [j for j, t0 in enumerate(tasks) if len(t0["outs"]) == len(outs) and t0.get("fn_of") is None]
        any_arity = [j for j, t0 in enumerate(tasks) if t0.get("fn_of") is None and t0.get("twin_of") is None]
        if same_arity and draw(st.integers(0, 5)) == 0:
            fn_of = draw(st.sampled_from(same_arity))
        elif any_arity and draw(st.integers(0, 7)) == 0:
            # ... and with another NUMBER of outputs: both tasks pass the count as a static keyword
            fn_of = draw(st.sampled_from(any_arity))
            tasks[fn_of]["kwargs"]["_n"] = {"s": len(tasks[fn_of]["outs"])}
            kwargs["_n"] = {"s": len(outs)}
        tasks.append({
            "fn_of": fn_of,
            "name": tname(perm[i]),
            "outs": outs,
            "gpu": bool(gpu and draw(st.integers(0, 9)) == 0),
            "args": args,
            "kwargs": kwargs,
            "placeholders": draw(st.booleans()),
            "vt": draw(st.sampled_from(VALUE_TYPES)),
        })
    # the usual builder idiom `t = TaskBuilder.from_callable(f); with_node("a", t).with_node("b", t)` puts ONE TaskInstance object
    # under two task names: a twin of a task whose keyword parameters are fed by edges (and carry static defaults), itself without
    # any edge -- it must see the static defaults, whatever its sibling was fed before it in the same process
    cands = [i for i, t in enumerate(tasks) if not any("e" in sl for sl in t["args"]) and any("e" in sl and "d" in sl for sl in t["kwargs"].values())]
    if cands and len(tasks) < max_tasks + 1 and draw(st.booleans()):
        i = draw(st.sampled_from(cands))
        t = tasks[i]
        tasks.append({"name": tname(n), "outs": list(t["outs"]), "gpu": t["gpu"],
                      "args": [dict(sl) for sl in t["args"]],
                      "kwargs": {k: ({"s": sl["d"]} if "e" in sl else dict(sl)) for k, sl in t["kwargs"].items() if "e" not in sl or "d" in sl},
                      "placeholders": t["placeholders"], "vt": t.get("vt"), "twin_of": i})
    all_ds = [[i, o] for i, t in enumerate(tasks) for o in t["outs"]]
    if ext == "none" or not all_ds:
        ext_l: list = []
    else:
        consumed = {(s["e"][0], s["e"][1]) for t in tasks for s in list(t["args"]) + list(t["kwargs"].values()) if "e" in s}
        mode = draw(st.sampled_from(["sinks", "any", "all", "few"]))
        if mode == "sinks":
            ext_l = [d for d in all_ds if tuple(d) not in consumed]
        elif mode == "all":
            ext_l = list(all_ds)
        elif mode == "few":
            ext_l = draw(st.lists(st.sampled_from(all_ds), min_size=1, max_size=2, unique_by=lambda d: tuple(d)))
        else:
            ext_l = draw(st.lists(st.sampled_from(all_ds), max_size=len(all_ds), unique_by=lambda d: tuple(d)))
    spec = {"tasks": tasks, "ext": ext_l, "ext_mode": draw(st.sampled_from(["ctor", "ctor", "assign", "inplace"])),
            # the edge list of a job is a list in whatever order it was assembled: a task's in-edges need not be adjacent
            "edge_shuffle": draw(st.one_of(st.none(), st.integers(0, 1 << 16)))}
    if with_serdes:
        # custom serde registrations (type name -> (ser function, des function)); only the encodings carry them (C17)
        spec["serdes"] = draw(st.dictionaries(st.sampled_from(["pkg.T", "numpy.ndarray", "a.b.C", ""]),
                                              st.tuples(st.sampled_from(["m.ser", "x.y.dumps", ""]), st.sampled_from(["m.des", "x.y.loads"])).map(list),
                                              max_size=2))
    return spec


def spec_edges(spec: dict) -> list[tuple[int, str, int, Any]]:
    """(source task index, output, sink task index, position-or-keyword)"""
    rv = []
    for j, t in enumerate(spec["tasks"]):
        for p, s in enumerate(t["args"]):
            if "e" in s:
                rv.append((s["e"][0], s["e"][1], j, p))
        for k, s in t["kwargs"].items():
            if "e" in s:
                rv.append((s["e"][0], s["e"][1], j, k))
    return rv


def build_job(spec: dict, fn_factory=make_fn, faults: dict | None = None) -> JobInstance:
    tasks: dict[str, TaskInstance] = {}
    edges: list[Task2TaskEdge] = []
    names = [t["name"] for t in spec["tasks"]]
    fns: dict[int, Any] = {}
    for j, t in enumerate(spec["tasks"]):
        if t.get("twin_of") is not None:
            tasks[t["name"]] = tasks[names[t["twin_of"]]]  # the very same TaskInstance object under a second name, no edges of its own
            continue
        ps: dict[str, Any] = {}
        kw: dict[str, Any] = {}
        for p, s in enumerate(t["args"]):
            if "e" in s:
                edges.append(Task2TaskEdge(source=DatasetId(names[s["e"][0]], s["e"][1]), sink_task=t["name"],
                                           sink_input_kw=None, sink_input_ps=p))
                if t.get("placeholders"):
                    ps[str(p)] = None  # graph2job leaves a None placeholder at edge positions
            else:
                ps[str(p)] = s["s"]
        for k, s in t["kwargs"].items():
            if "e" in s:
                edges.append(Task2TaskEdge(source=DatasetId(names[s["e"][0]], s["e"][1]), sink_task=t["name"],
                                           sink_input_kw=k, sink_input_ps=None))
                if "d" in s:
                    kw[k] = s["d"]  # static default of a parameter that is also fed by an edge
            else:
                kw[k] = s["s"]
        if t.get("fn_of") is not None:
            fn = fns[t["fn_of"]]  # the very same callable object (and value type) as an earlier task
        else:
            fn = fn_factory(t["name"], len(t["outs"])) if faults is None else fn_factory(t["name"], len(t["outs"]), faults.get(t["name"]))
            fn = with_value_type(fn, t.get("vt"))
        fns[j] = fn
        tasks[t["name"]] = TaskInstance(
            definition=TaskDefinition(
                func=TaskDefinition.func_enc(fn),
                environment=[],
                input_schema={k: "Any" for k in t["kwargs"]},
                output_schema={o: "Any" for o in t["outs"]},
                needs_gpu=t["gpu"],
            ),
            static_input_kw=kw,
            static_input_ps=ps,
        )
    if spec.get("edge_shuffle") is not None:
        import random

        random.Random(spec["edge_shuffle"]).shuffle(edges)
    ext = [DatasetId(names[i], o) for i, o in spec["ext"]]
    mode = spec.get("ext_mode", "ctor")
    serdes = {k: (v[0], v[1]) for k, v in spec.get("serdes", {}).items()}
    if mode == "ctor":
        return JobInstance(tasks=tasks, edges=edges, ext_outputs=ext, **({"serdes": serdes} if serdes else {}))
    # the requested outputs are often set on an already built instance (JobBuilder.build() returns one without any)
    job = JobInstance(tasks=tasks, edges=edges)
    if mode == "assign":
        job.ext_outputs = ext
    else:
        job.ext_outputs.extend(ext)
    if serdes and mode == "assign":
        job.serdes = serdes
    elif serdes:
        job.serdes.update(serdes)
    return job


def spec_stats(spec: dict) -> dict:
    es = spec_edges(spec)
    n = len(spec["tasks"])
    return {
        "tasks": n,
        "edges": len(es),
        "multi_out": sum(1 for t in spec["tasks"] if len(t["outs"]) > 1),
        "kw_edges": sum(1 for e in es if isinstance(e[3], str)),
        "gpu": sum(1 for t in spec["tasks"] if t["gpu"]),
    }
