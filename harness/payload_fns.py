"""Module-level callables used as node payloads (dill / cloudpickle store them by reference, so identity survives a
round trip through the Cascade file format)."""


def src0():
    return 0


def src1():
    return 1


def inc(x):
    return x + 1


def double(x):
    return x * 2


def total(*xs):
    return sum(xs)


def pair(x):
    yield x
    yield x + 1


def triple(x):
    yield x
    yield x + 1
    yield x + 2


def eleven(x):
    for i in range(11):
        yield x + i


SOURCES = [src0, src1]
UNARY = [inc, double]
BY_NAME = {f.__name__: f for f in [src0, src1, inc, double, total, pair, triple, eleven]}
