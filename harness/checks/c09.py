"""C09 — shared-memory datasets keep their bytes, are protected in use, stay reachable."""

from __future__ import annotations

from .. import common, shmmachine
from ..common import Stats, Violation
from .c08 import TIERS as _T8
from .c08 import _known_f20, _tags, body_for

PROPERTY = "C09"
LEVEL = "exploration"
FAMILY = "C09"
RULE = (
    "cases = the same generated histories as C08 (requests from any number of writers/readers over 6 keys, capacity 1-96 bytes or page-sized, any "
    "completion order of page-out/page-in jobs including failures, virtual clock jumps beyond the 15-minute staleness window, "
    "persistent requests). Oracle: every successful get exposes exactly the bytes written under the key (contents differ per key "
    "and generation) after any number of page cycles; get before the writer closed answers wait; a dataset with a reader younger than "
    "15 min stays readable and its segment exists, whatever memory pressure arrives; a purge during a read takes effect when the "
    "last reader closes (segment gone, key unknown, space returned); whenever a request answered wait although free space plus "
    "idle, reader-free resident datasets suffice, completing all disk jobs and re-issuing it (<= 4 rounds) gets it granted. "
    "non-trivial = a read that followed >=1 page-out+page-in of that key, or a wait that was later granted, or a purge issued during "
    "a read; distinct = fingerprint of the history. Plus sampled executions against the real server process: 2-6 concurrent real "
    "client threads, each owning its keys (exact per-key model: allocate / write / read / hold / purge / re-write, oversize requests, "
    "peeks at other threads' keys that must be self-consistent), memory 1.3-2.7x over-committed so that evictions and page-ins happen; "
    "at every barrier the reported free space must equal capacity minus the segments present; non-trivial there = >=1 verified read "
    "and >=1 eviction observed"
)
ASSUMPTIONS = [
    "eviction order itself (once-read, many-read, never-read) is not asserted: the statement demands safety and reachability only",
    "what the store does with a dataset whose disk job failed is observed, not prescribed (it may forget it or keep it reserved)",
    "disk jobs are atomic in the harness; see C08",
    "real-server samples (2 per shard quick, 12 thorough): the real server process, UDP loopback, disk thread pools and 2-6 concurrent "
    "real client threads; the schedule there is the operating system's, so these are sampled executions, not a search; a time-out "
    "counts only when it recurs on a second execution",
]
TIERS = _T8
MANIFEST = {
    "engine": "shm-machine",
    "technique": "model-based stateful property testing: byte-exact read-back, protection-in-use invariants and bounded reachability over generated histories",
    "text": "The same generated histories as C08; the model keeps the bytes of every key generation and every open reader, so each "
            "read is compared byte for byte, protection of datasets in use is checked after every operation against the store's "
            "status and the segment files, delayed purges are followed to the last reader's close, and bounded reachability is "
            "checked by persistent requests.",
    "note": "Search, not proof; bounded liveness (4 retry rounds).",
}


def _nt(m) -> bool:
    s = m.stats
    return s["read_after_cycle"] >= 1 or s["wait_then_granted"] >= 1 or s["purge_during_read"] >= 1


_real_n = [0]


def _real_body(stats):
    """One sample against the real server process (real UDP, real disk threads) with concurrent real client threads."""
    import os

    from .. import realshm

    def body(case):
        shard_i = int(os.environ.get("VERIF_SHARD", "0"))
        for attempt in (1, 2):
            _real_n[0] += 1
            r = realshm.run_case(case, 1100 + shard_i * 56 + (_real_n[0] % 8) * 7, f"v9r{os.getpid() % 10000}x{_real_n[0] % 1000}")
            if r.breaches:
                fam, clause, msg = r.breaches[0]
                raise Violation(f"real shm server, {len(case['threads'])} concurrent clients, capacity {case['capacity']}: {msg}", clause)
            if not r.timeouts:
                break
            # a request that is not served within 20 s although at most half the capacity is pinned: reachability. Scheduling is the
            # operating system's here, so only a time-out that recurs on a second execution of the same script is reported
            if attempt == 2:
                raise Violation(f"real shm server: {r.timeouts[0]} (twice in a row; at most half the capacity was pinned by open "
                                f"buffers, so evicting idle datasets would have served it)", "unreachable")
            if stats is not None:
                stats.inconclusive += 1
        s = r.stats
        nt = s["reads_ok"] >= 1 and s["evictions_seen"] >= 1
        tags = ["real_server_sample"] + [f"real_{k}" for k in ("evictions_seen", "rewrites", "held", "peeks_ok", "purges", "oversize_refused") if s[k]]
        return nt, tags

    return body


def shard(seed, cases, tier):
    from hypothesis import strategies as st

    from .. import realshm

    # the real-server samples run first: they fork, which is only safe while this process has no other threads
    real = Stats()
    common.hyp_run(st.composite(realshm.cases)(), _real_body(real), real, seed + 17, 12 if tier == "thorough" else 2, shrink=False, skip_first=True)
    if real.violations:
        return real
    st_ = Stats()
    common.hyp_run(shmmachine.histories(max_ops=TIERS[tier]["max_ops"]), body_for(FAMILY, _nt, st_), st_, seed, cases)
    st_.merge(real)
    return st_


def replay(case):
    if "threads" in case:
        _real_body(None)(case)
        return
    m = shmmachine.run_history(case, _known_f20())
    mine = [b for b in m.breaches if b[0] == FAMILY]
    if mine:
        raise Violation(mine[0][2], mine[0][1])
