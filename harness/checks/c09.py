"""C09 — shared-memory datasets keep their bytes, are protected in use, stay reachable."""

from __future__ import annotations

from .. import common, shmmachine
from ..common import Stats, Violation
from .c08 import TIERS as _T8
from .c08 import _known_f20, _tags, body_for

PROPERTY = "C09"
LEVEL = "exploration"
FAMILY = "C09"
RULE = (
    "cases = the same generated histories as C08 (requests from any number of writers/readers over 6 keys, capacity 1-96, any "
    "completion order of page-out/page-in jobs including failures, virtual clock jumps beyond the 15-minute staleness window, "
    "persistent requests). Oracle: every successful get exposes exactly the bytes written under the key (contents differ per key "
    "and generation) after any number of page cycles; get before the writer closed answers wait; a dataset with a reader younger than "
    "15 min stays readable and its segment exists, whatever memory pressure arrives; a purge during a read takes effect when the "
    "last reader closes (segment gone, key unknown, space returned); whenever a request answered wait although free space plus "
    "idle, reader-free resident datasets suffice, completing all disk jobs and re-issuing it (<= 4 rounds) gets it granted. "
    "non-trivial = a read that followed >=1 page-out+page-in of that key, or a wait that was later granted, or a purge issued during "
    "a read; distinct = fingerprint of the history"
)
ASSUMPTIONS = [
    "eviction order itself (once-read, many-read, never-read) is not asserted: the statement demands safety and reachability only",
    "what the store does with a dataset whose disk job failed is observed, not prescribed (it may forget it or keep it reserved)",
    "disk jobs are atomic in the harness; see C08",
]
TIERS = _T8
MANIFEST = {
    "engine": "shm-machine",
    "technique": "model-based stateful property testing: byte-exact read-back, protection-in-use invariants and bounded reachability over generated histories",
    "text": "The same generated histories as C08; the model keeps the bytes of every key generation and every open reader, so each "
            "read is compared byte for byte, protection of datasets in use is checked after every operation against the store's "
            "status and the segment files, delayed purges are followed to the last reader's close, and bounded reachability is "
            "checked by persistent requests.",
    "note": "Search, not proof; bounded liveness (4 retry rounds).",
}


def _nt(m) -> bool:
    s = m.stats
    return s["read_after_cycle"] >= 1 or s["wait_then_granted"] >= 1 or s["purge_during_read"] >= 1


def shard(seed, cases, tier):
    st_ = Stats()
    common.hyp_run(shmmachine.histories(max_ops=TIERS[tier]["max_ops"]), body_for(FAMILY, _nt, st_), st_, seed, cases)
    return st_


def replay(case):
    m = shmmachine.run_history(case, _known_f20())
    mine = [b for b in m.breaches if b[0] == FAMILY]
    if mine:
        raise Violation(mine[0][2], mine[0][1])
