"""C04 — data is never purged, transferred or fetched while missing or still needed."""

from __future__ import annotations

from .. import simcheck

PROPERTY = "C04"
LEVEL = "exploration"
FAMILY = "C04"
RULE = (
    "cases = the cluster simulation of C01, biased towards requested outputs that also have consumers (replication to other hosts). "
    "Oracle (ground truth) at Bridge.purge(host, ds): all consumers of ds have completed, a requested ds has already been returned "
    "to the controller, no transfer/fetch commanded from that host for ds is still unexecuted, the host holds ds, it was not purged "
    "before; at transmit/fetch: the source holds ds now and ds was not purged on the target before. non-trivial = a dataset purged on "
    ">=2 hosts, or a requested output with a consumer; distinct = fingerprint of (case, event trace)"
)
ASSUMPTIONS = [
    "a commanded transfer counts as unanswered until the source's data server has read the bytes (ground truth; the controller "
    "cannot observe anything earlier, and redundant transfers are never announced)",
    "purge commands travel through the executor, transfer/fetch commands go straight to the data server: they may overtake each other",
]
TIERS = {
    "quick": {"cases": 3200, "shards": 16},
    "thorough": {"cases": 160000, "shards": 16},
}
MANIFEST = {
    "engine": "clustersim",
    "technique": "model-based simulation testing with ground-truth data-lifecycle invariants at every purge / transfer / fetch command",
    "text": "Every purge, transfer and fetch the real controller commands is checked against the simulator's ground truth of where each "
            "dataset physically is, which consumers have finished, which values reached the caller and which commands are still "
            "unexecuted, under generated schedules that replicate requested outputs and delay transfers and fetches.",
    "note": "Search, not proof. See C01 for what is simulated.",
}


def _nt(c):
    return c["purged_on_2_hosts"] > 0 or c["ext_with_consumer"] > 0


def shard(seed, cases, tier):
    return simcheck.shard(FAMILY, _nt, seed, cases, tier, bias="replication")


def replay(case):
    simcheck.replay_case(FAMILY, case)
