"""C15 — array backends agree with NumPy; 'batchable' functions really are batchable."""

from __future__ import annotations

import warnings

import numpy as np
import xarray as xr
from hypothesis import strategies as st

from .. import common
from ..common import Stats, Violation

warnings.filterwarnings("ignore")
from earthkit.workflows import backends  # noqa: E402

PROPERTY = "C15"
LEVEL = "exploration"
RULE = (
    "cases = (operation, backend flavour in {ndarray, xr.DataArray, xr.Dataset}, 1-6 argument arrays of 0-3 dims with sizes 1-4, "
    "dtype in {int64, float64, float32, int8, uint8, int16, bool; narrow integers scaled so that sums/products overflow the input dtype}, axis/dim argument (integer axes also in negative form), take indices (int, list, negative), stack axis, concat "
    "axis, and for every function the library marks batchable (enumerated from Backend by reflection) every ordered partition of "
    "2-6 arguments into >=2 consecutive batches; kind refill: a multi-argument reduction, its operands refilled in place with other "
    "data, the same reduction again on the same objects; xarray stacks with the axis in negative form too); oracle = NumPy on the raw data; non-trivial = >=3 arguments with >=2 different "
    "values, or a batch partition with unequal batch sizes, or an axis/dim argument that is not the first axis; distinct = "
    "fingerprint of the case"
)
ASSUMPTIONS = [
    "NumPy is the oracle; array values are small integers (also in float dtypes) so that re-association is exact and batching "
    "cannot hide behind a tolerance; mean/std/var/divide compare with rtol 1e-6",
    "singleton batches are passed through unchanged and the outer call is made on >=2 values, exactly as fluent._batch_transform "
    "applies the flag (a single-argument call means 'reduce over the whole array' in these backends)",
    "xarray operands of binary operations have equal dims (alignment by name is xarray semantics, not NumPy's)",
    "the earthkit FieldList backend is not exercised (no GRIB data offline)",
]
TIERS = {
    "quick": {"cases": 4800, "shards": 8},
    "thorough": {"cases": 480000, "shards": 16},
}
MANIFEST = {
    "engine": "structural-oracle",
    "technique": "differential property-based testing against NumPy + metamorphic batch-partition law over reflectively enumerated batchable functions",
    "text": "Generated-input search: each backend operation on ndarray / DataArray / Dataset inputs must return NumPy's value (and "
            "raise where NumPy raises); every function carrying the batchable marker must satisfy f(f(b1),...,f(bk)) == f(all) for "
            "every generated partition; the documented non-batchable mean/std must not carry the marker.",
    "note": "Search, not proof. Small shapes (<=3 dims, sizes <=4).",
}

MULTI = ["sum", "prod", "min", "max", "mean", "std", "var"]
BINARY = ["add", "subtract", "multiply", "divide", "pow"]
import operator as _operator  # noqa: E402

PYBIN = {"add": _operator.add, "subtract": _operator.sub, "multiply": _operator.mul, "divide": _operator.truediv, "pow": _operator.pow}
NPBIN = {"add": np.add, "subtract": np.subtract, "multiply": np.multiply, "divide": np.divide, "pow": np.power}
DTYPES = ["int64", "float64", "float32", "int8", "uint8", "int16", "int32", "uint16", "bool"]
DIMS = ["d0", "d1", "d2"]


def batchable_names() -> list[str]:
    rv = []
    for n in sorted(dir(backends.Backend)):
        if n.startswith("_"):
            continue
        f = getattr(backends, n)
        if getattr(f, "batchable", False):
            rv.append(n)
    return rv


shapes = st.lists(st.integers(1, 4), min_size=0, max_size=3)


def _size(shape):
    n = 1
    for s in shape:
        n *= s
    return n


def _data(shape, lo=-4, hi=4):
    return st.lists(st.integers(lo, hi), min_size=_size(shape), max_size=_size(shape))


@st.composite
def cases(draw):
    kind = draw(st.sampled_from(["multi", "multi", "binary", "take", "stack", "concat", "batch", "batch", "refill"]))
    flavour = draw(st.sampled_from(["np", "np", "da", "ds"]))
    dtype = draw(st.sampled_from(DTYPES))
    # the integer axis / dim is given in its negative (count-from-the-end) form, which NumPy defines to mean the same axis
    c: dict = {"kind": kind, "flavour": flavour, "dtype": dtype, "neg": draw(st.integers(0, 2)) == 0}
    if kind == "refill":
        # the same array OBJECTS are reduced, refilled in place (a reused read buffer), and reduced again
        c["flavour"] = "np"
        c["ops"] = [draw(st.sampled_from(MULTI)), draw(st.sampled_from(MULTI))]
        n = draw(st.integers(2, 4))
        shape = draw(shapes.filter(lambda s: len(s) >= 1))  # (a 0-d operand is a NumPy scalar: nothing to refill in place)
        c["shape"] = shape
        c["data"] = [draw(_data(shape)) for _ in range(n)]
        c["data2"] = [draw(_data(shape)) for _ in range(n)]
        c["which"] = draw(st.lists(st.integers(0, n - 1), min_size=1, max_size=n, unique=True))
        return c
    if kind == "multi":
        c["op"] = draw(st.sampled_from(MULTI))
        if c["op"] in ("min", "max") and draw(st.integers(0, 4)) == 0:
            c["dtype"] = "bool"
        n = draw(st.integers(1, 6))
        shape = draw(shapes.filter(lambda s: len(s) >= 1)) if n == 1 else draw(shapes)
        c["shape"] = shape
        c["data"] = [draw(_data(shape)) for _ in range(n)]
        c["axis"] = draw(st.integers(0, len(shape) - 1)) if n == 1 else None
        # missing values: one element of one argument is NaN (float dtypes only)
        c["nan"] = [draw(st.integers(0, n - 1)), draw(st.integers(0, 63))] if (c["dtype"] in ("float64", "float32") and draw(st.integers(0, 5)) == 0) else None
    elif kind == "binary":
        c["op"] = draw(st.sampled_from(BINARY))
        shape = draw(shapes)
        c["shape"] = shape
        c["data"] = [draw(_data(shape))]
        mode = draw(st.sampled_from(["same", "scalar", "broadcast"]))
        if flavour != "np" and mode == "broadcast":
            mode = "same"
        c["mode"] = mode
        if mode == "same":
            c["shape2"] = shape
        elif mode == "scalar":
            c["shape2"] = None
        else:
            c["shape2"] = draw(st.sampled_from([shape[1:], [1] * len(shape), shape[-1:], shape, [s + 1 for s in shape]]))
        if mode == "scalar":
            c["data"].append(draw(st.integers(-3, 3)))
        else:
            c["data"].append(draw(_data(c["shape2"], -3, 3)))
    elif kind == "take":
        shape = draw(shapes.filter(lambda s: len(s) >= 1))
        c["shape"] = shape
        c["data"] = [draw(_data(shape))]
        ax = draw(st.integers(0, len(shape) - 1))
        c["axis"] = ax
        n = shape[ax]
        c["indices"] = draw(st.one_of(st.integers(-n, n - 1), st.lists(st.integers(-n, n - 1), min_size=1, max_size=4)))
    elif kind == "stack":
        n = draw(st.integers(1, 5))
        shape = draw(shapes)
        c["shape"] = shape
        c["data"] = [draw(_data(shape)) for _ in range(n)]
        c["axis"] = draw(st.integers(0, len(shape)))
    elif kind == "concat":
        n = draw(st.integers(1, 5))
        shape = draw(shapes.filter(lambda s: len(s) >= 1))
        c["shape"] = shape
        c["data"] = [draw(_data(shape)) for _ in range(n)]
        c["axis"] = draw(st.integers(0, len(shape) - 1))
    else:  # batch
        names = batchable_names()
        c["op"] = draw(st.sampled_from(names))
        n = draw(st.integers(2, 6))
        shape = draw(shapes.filter(lambda s: len(s) >= 1)) if c["op"] == "concat" else draw(shapes)
        c["shape"] = shape
        c["data"] = [draw(_data(shape)) for _ in range(n)]
        c["axis"] = draw(st.integers(0, len(shape) - 1)) if c["op"] == "concat" else None
        # ordered partition into k >= 2 consecutive batches: choose cut points
        cuts = draw(st.lists(st.integers(1, n - 1), min_size=1, max_size=n - 1, unique=True))
        c["cuts"] = sorted(cuts)
    return c


def _mk(raw, shape, dtype, flavour):
    a = np.asarray(raw, dtype="int64").reshape(shape)
    if dtype in ("int8", "int16", "int32"):
        a = a * 30  # -120..120: fits the input dtype, sums and products of a few of them do not
    elif dtype in ("uint8", "uint16"):
        a = np.abs(a) * 60
    a = (a != 0) if dtype == "bool" else a.astype(dtype)
    if flavour == "np":
        return a
    da = xr.DataArray(a, dims=DIMS[: len(shape)])
    return da if flavour == "da" else xr.Dataset({"v": da})


def _raw(x):
    if isinstance(x, xr.Dataset):
        return np.asarray(x["v"].values)
    if isinstance(x, xr.DataArray):
        return np.asarray(x.values)
    return np.asarray(x)


def _dims(x):
    if isinstance(x, xr.Dataset):
        return list(x["v"].dims)
    if isinstance(x, xr.DataArray):
        return list(x.dims)
    return None


def _agree(got, exp, what, approx=False):
    g = _raw(got)
    e = np.asarray(exp)
    if g.shape != e.shape:
        raise Violation(f"{what}: shape {g.shape} expected {e.shape}", "shape")
    if g.dtype != e.dtype:
        raise Violation(f"{what}: dtype {g.dtype}, NumPy gives {e.dtype}", "dtype")
    if approx or e.dtype.kind == "f":
        ok = np.allclose(g.astype("float64"), e.astype("float64"), rtol=1e-6 if approx else 0, atol=1e-9 if approx else 0, equal_nan=True)
    else:
        ok = np.array_equal(g, e)
    if not ok:
        raise Violation(f"{what}: got {g.tolist()} expected {e.tolist()}", "value")


def _call(f, *a, **k):
    with np.errstate(all="ignore"):
        return f(*a, **k)


def _differential(what, backend_call, numpy_call, approx=False, dims_expected=None, numpy_alt=None):
    """numpy_alt: a second way NumPy itself computes the same thing (the Python operator next to the ufunc). Where NumPy's two
    ways disagree with each other (bool ** 2 is int8 through the operator's square fast path, int64 through np.power) either answer
    is NumPy's."""
    try:
        exp = _call(numpy_call)
        exp_err = None
    except Exception as e:
        exp, exp_err = None, e
    if numpy_alt is not None and exp_err is None:
        try:
            alt = _call(numpy_alt)
            got0 = _call(backend_call)
            if np.asarray(alt).dtype != np.asarray(exp).dtype and np.asarray(_raw(got0)).dtype == np.asarray(alt).dtype:
                exp = alt
        except Exception:  # noqa: BLE001 -- judged below against the primary expectation
            pass
    try:
        got = _call(backend_call)
        got_err = None
    except Exception as e:
        got, got_err = None, e
    if exp_err is not None:
        if got_err is None:
            raise Violation(f"{what}: NumPy raises {type(exp_err).__name__} but the backend returned {_raw(got).tolist()}", "should-raise")
        return "both_raise"
    if got_err is not None:
        raise Violation(f"{what}: backend raised {type(got_err).__name__}: {got_err} where NumPy gives {np.asarray(exp).tolist()}", "raises")
    _agree(got, exp, what, approx)
    if dims_expected is not None and _dims(got) is not None and _dims(got) != dims_expected:
        raise Violation(f"{what}: dims {_dims(got)} expected {dims_expected}", "dims")
    return "agree"


def run_case(c) -> tuple[bool, list[str]]:
    kind, fl, dt = c["kind"], c["flavour"], c["dtype"]
    classes = [f"kind:{kind}", f"flavour:{fl}"]
    shape = c["shape"]
    what = f"{kind} {c.get('op', '')} on {fl}/{dt} shape={shape}"
    nt = False
    if kind == "multi":
        op = c["op"]
        arrs = [_mk(d, shape, dt, fl) for d in c["data"]]
        if c.get("nan"):
            ai, pos = c["nan"]
            base = np.asarray(c["data"][ai], dtype="int64").reshape(shape).astype(dt)
            flat = base.reshape(-1)
            if flat.size:
                flat[pos % flat.size] = np.nan
                nan_arr = flat.reshape(shape)
                arrs[ai] = nan_arr if fl == "np" else (__import__("xarray").DataArray(nan_arr, dims=DIMS[: len(shape)]) if fl == "da" else
                                                       __import__("xarray").Dataset({"v": __import__("xarray").DataArray(nan_arr, dims=DIMS[: len(shape)])}))
                classes.append("nan_input")
        raws = [_raw(a) for a in arrs]
        f = getattr(backends, op)
        npf = getattr(np, op)
        approx = op in ("mean", "std", "var")
        if "nan_input" in classes and fl != "np":
            # known finding F32 (if listed): xarray reductions skip NaN by default, NumPy and the array-API backend propagate it
            try:
                if len(arrs) == 1:
                    kw = {"dim": DIMS[c["axis"]]}
                    _differential(what, lambda: f(arrs[0], **kw), lambda: npf(raws[0], axis=c["axis"]), approx)
                else:
                    _differential(what, lambda: f(*arrs), lambda: npf(np.stack(raws), axis=0), approx)
            except Violation as v:
                if v.clause == "value" and _STATS[0] is not None and common.known(_STATS[0], PROPERTY, "F32"):
                    return False, classes + ["known_F32"]
                raise
            return True, classes + ["agree"]
        if len(arrs) == 1:
            ax = c["axis"]
            ax_arg = ax - len(shape) if (c.get("neg") and fl == "np") else ax
            kw = {"axis": ax_arg} if fl == "np" else {"dim": DIMS[ax]}
            dims_exp = None if fl == "np" else [d for i, d in enumerate(DIMS[: len(shape)]) if i != ax]
            r = _differential(what + f" axis={ax_arg}", lambda: f(arrs[0], **kw), lambda: npf(raws[0], axis=ax), approx, dims_exp)
            if ax_arg < 0:
                classes.append("negative_axis")
            nt = ax > 0
        else:
            dims_exp = None if fl == "np" else DIMS[: len(shape)]
            r = _differential(what + f" n={len(arrs)}", lambda: f(*arrs), lambda: npf(np.stack(raws), axis=0), approx, dims_exp)
            nt = len(arrs) >= 3 and len({tuple(d) for d in c["data"]}) >= 2
        classes.append(r)
    elif kind == "refill":
        arrs = [_mk(d, shape, dt, "np") for d in c["data"]]
        f1, f2 = (getattr(backends, o) for o in c["ops"])
        approx = any(o in ("mean", "std", "var") for o in c["ops"])
        r = _differential(what + f" {c['ops'][0]} (first call)", lambda: f1(*arrs), lambda: getattr(np, c["ops"][0])(np.stack(arrs), axis=0), approx)
        for i in c["which"]:
            arrs[i][...] = _mk(c["data2"][i], shape, dt, "np")  # in place: the objects stay the same, their contents do not
        r = _differential(what + f" {c['ops'][1]} after an in-place refill of operand(s) {c['which']}", lambda: f2(*arrs),
                          lambda: getattr(np, c["ops"][1])(np.stack(arrs), axis=0), approx)
        classes += [r, "refilled_in_place"]
        nt = len(arrs) >= 2
    elif kind == "binary":
        op = c["op"]
        a = _mk(c["data"][0], shape, dt, fl)
        if c["mode"] == "scalar":
            b = c["data"][1]
            braw = b
        else:
            b = _mk(c["data"][1], c["shape2"], dt, fl)
            braw = _raw(b)
        f = getattr(backends, op)
        r = _differential(what + f" mode={c['mode']}", lambda: f(a, b), lambda: NPBIN[op](_raw(a), braw), approx=(op == "divide"),
                          numpy_alt=lambda: PYBIN[op](_raw(a), braw))
        classes += [r, "mode:" + c["mode"]]
        nt = op in ("subtract", "divide", "pow") and r == "agree" and _size(shape) >= 2
    elif kind == "take":
        a = _mk(c["data"][0], shape, dt, fl)
        ax, idx = c["axis"], c["indices"]
        if isinstance(idx, list):
            exp = lambda: np.take(_raw(a), idx, axis=ax)  # noqa: E731
            dims_exp = None if fl == "np" else DIMS[: len(shape)]
        else:
            exp = lambda: np.squeeze(np.take(_raw(a), [idx], axis=ax), axis=ax)  # noqa: E731
            dims_exp = None if fl == "np" else [d for i, d in enumerate(DIMS[: len(shape)]) if i != ax]
        dim_arg = ax if (fl == "np" or len(str(idx)) % 2 == 0) else DIMS[ax]
        if c.get("neg") and isinstance(dim_arg, int):
            dim_arg = ax - len(shape)
            classes.append("negative_axis")
        r = _differential(what + f" take({idx}, dim={dim_arg!r})", lambda: backends.take(a, idx, dim=dim_arg), exp, False, dims_exp)
        classes.append(r)
        nt = ax > 0 or (isinstance(idx, list) and len(idx) >= 2)
    elif kind == "stack":
        arrs = [_mk(d, shape, dt, fl) for d in c["data"]]
        ax = c["axis"]
        if fl == "np":
            ax_arg = ax - (len(shape) + 1) if c.get("neg") else ax
            if ax_arg < 0:
                classes.append("negative_axis")
            r = _differential(what + f" axis={ax_arg}", lambda: backends.stack(*arrs, axis=ax_arg), lambda: np.stack([_raw(x) for x in arrs], axis=ax))
        else:
            dims_exp = DIMS[: len(shape)][:ax] + ["new"] + DIMS[: len(shape)][ax:]
            ax_arg = ax - (len(shape) + 1) if c.get("neg") else ax  # the same position counted from the end, as NumPy defines it
            if ax_arg < 0:
                classes.append("negative_axis")
            r = _differential(what + f" axis={ax_arg}", lambda: backends.stack(*arrs, dim="new", axis=ax_arg),
                              lambda: np.stack([_raw(x) for x in arrs], axis=ax), False, dims_exp)
        classes.append(r)
        nt = ax > 0 and len(arrs) >= 2
    elif kind == "concat":
        arrs = [_mk(d, shape, dt, fl) for d in c["data"]]
        ax = c["axis"]
        ax_arg = ax - len(shape) if (c.get("neg") and fl == "np") else ax
        if ax_arg < 0:
            classes.append("negative_axis")
        kw = {"axis": ax_arg} if fl == "np" else {"dim": DIMS[ax]}
        dims_exp = None if fl == "np" else DIMS[: len(shape)]
        r = _differential(what + f" axis={ax_arg}", lambda: backends.concat(*arrs, **kw), lambda: np.concatenate([_raw(x) for x in arrs], axis=ax),
                          False, dims_exp)
        classes.append(r)
        nt = ax > 0 and len(arrs) >= 2
    else:  # batch law
        op = c["op"]
        f = getattr(backends, op)
        if not getattr(f, "batchable", False):
            return False, classes + ["no_longer_marked"]
        arrs = [_mk(d, shape, dt, fl) for d in c["data"]]
        kw = {}
        if op == "concat":
            kw = {"axis": c["axis"]} if fl == "np" else {"dim": DIMS[c["axis"]]}
        bounds = [0] + c["cuts"] + [len(arrs)]
        batches = [arrs[bounds[i]: bounds[i + 1]] for i in range(len(bounds) - 1)]
        with np.errstate(all="ignore"):
            try:
                whole = f(*arrs, **kw)
            except Exception as e:
                raise Violation(f"{what}: {op}(all {len(arrs)} inputs) raised {type(e).__name__}: {e}", "batch-raises")
            try:
                partial = [b[0] if len(b) == 1 else f(*b, **kw) for b in batches]
                batched = f(*partial, **kw)
            except Exception as e:
                raise Violation(f"{what}: batched evaluation with batches {[len(b) for b in batches]} raised {type(e).__name__}: {e}",
                                "batch-raises")
        g, e = _raw(batched), _raw(whole)
        if g.shape != e.shape or not np.allclose(g.astype("float64"), e.astype("float64"), rtol=1e-9, atol=1e-12, equal_nan=True):
            raise Violation(f"{op} is marked batchable but {op}({','.join(op + '(b' + str(len(b)) + ')' for b in batches)}) = {g.tolist()} "
                            f"!= {op}(all) = {e.tolist()} for inputs {c['data']} shape {shape} ({fl}/{dt})", "batchable-law")
        sizes = [len(b) for b in batches]
        classes.append("batch:" + op)
        nt = len(set(sizes)) > 1 or (len(arrs) >= 3 and len({tuple(d) for d in c["data"]}) >= 2)
    return nt, classes


_STATS: list = [None]


def shard(seed: int, cases_n: int, tier: str) -> Stats:
    st_ = Stats()
    _STATS[0] = st_
    names = batchable_names()
    st_.extra["batchable_functions_enumerated"] = names
    for bad in ("mean", "std"):
        if bad in names:
            st_.violations.append({"case": {"marker": bad}, "msg": f"documented non-batchable function {bad} carries the batchable marker",
                                   "clause": "marker"})
            return st_
    common.hyp_run(cases(), run_case, st_, seed, cases_n)
    return st_


def replay(case) -> None:
    _STATS[0] = Stats()
    if "marker" in case:
        if case["marker"] in batchable_names():
            raise Violation(f"{case['marker']} carries the batchable marker", "marker")
        return
    run_case(case)
