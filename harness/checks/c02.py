"""C02 — every task is dispatched exactly once, to a free capable worker, after its inputs exist."""

from __future__ import annotations

from .. import simcheck

PROPERTY = "C02"
LEVEL = "exploration"
FAMILY = "C02"
RULE = (
    "cases = the cluster simulation of C01 (generated job x cluster x GPU subset x schedule). Oracle = ground truth kept by the "
    "simulator, checked at every Bridge.task_sequence (worker exists, is not busy, has a GPU if needed, no task dispatched twice, "
    "every consumed dataset produced, present on the target host or a transfer to it commanded) and on the worker side (the real "
    "entrypoint/runner/Memory start a task only when every input can be read from the host's store; a dying worker loop is a "
    "violation); at the end every task dispatched and executed exactly once. non-trivial = a task command reached its worker before "
    "one of its inputs had arrived on that host (deferral path), or a host migrated between components. Second family "
    "(worker-only): one real worker loop fed an arbitrary generated interleaving of task sequences (1-3 tasks each), publication "
    "notices for required and unrelated datasets (before / between / after the command, repeated, echoes of its own outputs) and "
    "purges, under the three preconditions the real system keeps; oracle: every sequence runs exactly once, never before its last "
    "required notice and immediately once it arrived, outputs equal the reference, nothing is read that was not announced; "
    "non-trivial there = a deferred sequence plus a repeated/unrelated notice or a purge. distinct = fingerprint of (case, event trace)"
)
ASSUMPTIONS = [
    "a worker counts as busy from dispatch until its real execute_sequence returns (the controller cannot know earlier)",
    "simulated transport/executor/data server/shm as in C01",
]
TIERS = {
    "quick": {"cases": 1600, "shards": 16},
    "thorough": {"cases": 160000, "shards": 16},
}
MANIFEST = {
    "engine": "clustersim",
    "technique": "model-based simulation testing with ground-truth invariants checked at every dispatch and every task start",
    "text": "The simulated cluster keeps ground truth (which dataset physically is where, which worker executes what, which transfers "
            "were commanded); each dispatch by the real scheduler and each task start by the real worker loop is checked against it "
            "under generated event orders, including orders in which a task command overtakes the publication notice of an input.",
    "note": "Search, not proof. See C01 for what is simulated.",
}


def _nt(c):
    return c["deferred"] > 0 or c["migrations"] > 0


def _wo_body(stats):
    def body(case, holder):
        from .. import workeronly
        from ..common import Violation

        nt, tags, fp, breaches = workeronly.run_case(case, holder)
        if breaches:
            raise Violation(breaches[0][1], "worker-only:" + breaches[0][0])
        return nt, tags, fp

    return body


def shard(seed, cases, tier):
    from .. import common, workeronly

    st_ = simcheck.shard(FAMILY, _nt, seed, cases, tier)
    if not st_.violations:
        common.hyp_run(workeronly.cases(), _wo_body(st_), st_, seed + 7, max(50, cases // 2))
    return st_


def replay(case):
    inner = case.get("case", case) if isinstance(case, dict) else case
    if isinstance(inner, dict) and "seqs" in inner:
        from .. import workeronly
        from ..common import Violation

        c = dict(inner)
        if "log" in case:
            c["log"] = case["log"]
        _nt2, _tags, _fp, breaches = workeronly.run_case(c, {})
        if breaches:
            raise Violation(breaches[0][1], "worker-only:" + breaches[0][0])
        return
    simcheck.replay_case(FAMILY, case)
