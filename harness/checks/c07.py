"""C07 — a transfer stores the dataset once, byte-identical, and announces it once.

Two or three real DataServer objects plus the controller's Listener/ReliableSender in one process over the in-memory network;
data_server.shm_client is a per-host in-memory store, its thread pool a lazy executor whose jobs complete when the generated schedule
says so (or when the code calls wait), time_ns a virtual clock. One harness turn of a server is one iteration of its real recv_loop.
"""

from __future__ import annotations

from concurrent.futures import ALL_COMPLETED, Future

from hypothesis import strategies as st

from .. import common, fakezmq
from ..common import Chooser, Stats, Violation
from ..fakeshm import ConflictError, HostStore

import cascade.executor.comms as comms  # noqa: E402
import cascade.executor.data_server as dsmod  # noqa: E402
import cascade.executor.serde as serde  # noqa: E402
from cascade.executor.msg import (  # noqa: E402
    Ack,
    DatasetPublished,
    DatasetPurge,
    DatasetTransmitCommand,
    DatasetTransmitFailure,
    DatasetTransmitPayload,
    Syn,
)
from cascade.executor.runner.memory import ds2shmid  # noqa: E402
from cascade.low.core import DatasetId  # noqa: E402

PROPERTY = "C07"
LEVEL = "exploration"
RULE = (
    "cases = 2-3 hosts, 1-4 datasets (1-64 bytes, distinct contents and decoding-function strings) pre-stored on generated hosts, a "
    "script of 1-8 commands (transfer A->B, redundant transfer of a dataset B already has, repeated transfers of one dataset, fetch to "
    "the controller, purge at the target at any moment, purge at the source once the transfer was stored; commands repeated back-to-back and then purged; storing pool biased towards "
    "finishing late in a third of the cases), and a generated schedule: "
    "fate of every framed message (command, payload, Ack: deliver / drop / duplicate / hold), server turns (one real recv_loop "
    "iteration each, empty turns advance the virtual clock by the 4 s resend grace), completion order of pool jobs, controller turns; "
    "fair loss (<=2 drops per message, holds <=3 timeouts, so that the 20-retry budget cannot be exhausted) then a loss-free drain. Oracle at quiescence: every host that was sent a dataset and did not "
    "purge it holds exactly one copy with the source's bytes and decoding function and announced it exactly once (never for a "
    "dataset it already had); every fetch handed the controller exactly one payload with the source's bytes; after a purge was "
    "processed on a host nothing resurrects or announces that dataset there; no server loop raised. non-trivial = >=1 payload "
    "dropped or duplicated, or a purge processed while a transfer of that dataset was still under way; distinct = fingerprint of "
    "(case, decision log)"
)
ASSUMPTIONS = [
    "pool jobs (send_payload / store_payload) are atomic; their completion order is generated, pre-emption inside them is not",
    "a purge at a transfer's source is only issued after the target stored the dataset (what C04 guarantees of the controller); purges "
    "at the target may come at any time",
    "shared memory is an in-memory stand-in (real shm: C08/C09); sockets are in-memory (real ones: C05)",
    "real-data-plane samples (1 per shard quick = 16, 4 thorough): two real shm server processes, two real DataServer processes with "
    "their real 2-thread pools, real zmq over loopback, 3-12 transfer / fetch commands issued back to back over datasets of 1 B - 1.5 MB; "
    "the schedule there is the operating system's: sampled executions, not a search",
]
TIERS = {
    "quick": {"cases": 8000, "shards": 16},
    "thorough": {"cases": 240000, "shards": 16},
}
MANIFEST = {
    "engine": "fakenet",
    "technique": "fault-injection property testing: real DataServer receive loops over a lossy in-memory network with generated job-completion order, final-state and announcement-count oracle",
    "text": "Real DataServer objects exchange real Syn/header/value payloads over an in-memory network that drops, duplicates and delays "
            "commands, payloads and acknowledgements; the harness owns the thread pool's completion order and the clock. After a "
            "loss-free drain each target must hold one byte-identical copy, announced once; fetches deliver once; purged datasets stay "
            "gone.",
    "note": "Search, not proof. See assumptions for what is atomic / simulated.",
}

CTRL = "tcp://ctrl:1"


class LazyPool:
    def __init__(self) -> None:
        self.jobs: list[tuple[Future, object, tuple]] = []

    def submit(self, fn, *args):
        f: Future = Future()
        self.jobs.append((f, fn, args))
        return f

    def run(self, i: int) -> None:
        f, fn, args = self.jobs.pop(i)
        try:
            f.set_result(fn(*args))
        except BaseException as e:  # noqa: BLE001
            f.set_exception(e)

    def shutdown(self, *a, **k) -> None:
        pass


class _Router:
    ConflictError = ConflictError

    def __init__(self, env):
        self.env = env

    def allocate(self, key, l, deser_fun, timeout_sec=60.0):
        return self.env.stores[self.env.cur].allocate(key, l, deser_fun)

    def get(self, key, timeout_sec=60.0):
        return self.env.stores[self.env.cur].get(key)

    def purge(self, key):
        self.env.on_purge(self.env.cur, key)  # whatever was announced so far precedes the purge
        return self.env.stores[self.env.cur].purge(key)


@st.composite
def cases(draw):
    nh = draw(st.integers(2, 3))
    nd = draw(st.integers(1, 4))
    data = []
    for i in range(nd):
        holders = draw(st.lists(st.integers(0, nh - 1), min_size=1, max_size=nh, unique=True))
        data.append({"bytes": draw(st.binary(min_size=1, max_size=64)), "deser": f"deser{i}", "holders": sorted(holders)})
    script = []
    for _ in range(draw(st.integers(1, 8))):
        k = draw(st.sampled_from(["transmit", "transmit", "transmit", "fetch", "purge_target", "purge_source", "twice_then_purge", "twice_then_purge"]))
        di, a, b = draw(st.integers(0, nd - 1)), draw(st.integers(0, 11)), draw(st.integers(0, 11))
        if k == "twice_then_purge":
            # the controller commands the same transfer twice (two consumers assigned in one round), later purges the dataset at the
            # target: both payloads may still be waiting in the target's pool when the purge arrives
            script += [["transmit", di, a, b], ["transmit", di, a, b], ["purge_target", di, b, b]]
        else:
            script.append([k, di, a, b])
    return {"hosts": nh, "data": data, "script": script, "decisions": draw(st.lists(st.integers(0, 1 << 16), max_size=120)),
            "tail": draw(st.integers(0, 1 << 30)),
            # a slow pool: jobs handed to a data server's thread pool tend to stay pending (every order remains possible)
            "slow_pool": draw(st.booleans())}


class Env:
    pass


def _kind(frames):
    try:
        m0 = serde.des_message(frames[0])
    except Exception:
        return None, None
    if isinstance(m0, Syn):
        return "data", m0
    if isinstance(m0, Ack) and len(frames) == 1:
        return "ack", m0
    return None, None


def run_case(c, holder) -> tuple[bool, list[str], object]:
    net = fakezmq.Net()
    net.mode = "held"
    net.reliable = lambda addr, frames: _kind(frames)[0] is None
    ch = Chooser(prefix=c.get("log") or c["decisions"], tail_seed=None if c.get("log") else c["tail"])
    holder["log"] = ch.log
    env = Env()
    hosts = [f"h{i}" for i in range(c["hosts"])]
    env.stores = {h: HostStore(h) for h in hosts}
    env.cur = hosts[0]
    dsid = [DatasetId(f"t{i}", "0") for i in range(len(c["data"]))]
    for i, d in enumerate(c["data"]):
        for hi in d["holders"]:
            if hi < len(hosts):
                b = env.stores[hosts[hi]].allocate(ds2shmid(dsid[i]), len(d["bytes"]), d["deser"])
                b.view()[: len(d["bytes"])] = d["bytes"]
                b.close()
        for h in hosts:
            env.stores[h].events.clear()
    stats = {"drop_data": 0, "dup_data": 0, "drop_ack": 0, "dup_ack": 0, "purge_during_transfer": 0, "redundant": 0, "resends": 0,
             "transfers": 0, "fetches": 0, "purges": 0, "skipped_cmds": 0}
    saved = (dsmod.shm_client, dsmod.time_ns, dsmod.wait, dsmod.logging.config.dictConfig)
    pools: dict[str, LazyPool] = {}

    def fake_wait(futs, timeout=None, return_when=ALL_COMPLETED):
        pool = pools[env.cur]
        futs = list(futs)
        if return_when == ALL_COMPLETED:
            while any(not f.done() for f in futs) and pool.jobs:
                pool.run(0)
        else:
            if not any(f.done() for f in futs) and pool.jobs:
                pool.run(0)
        return ([f for f in futs if f.done()], [f for f in futs if not f.done()])

    dsmod.shm_client = _Router(env)
    dsmod.time_ns = net.time_ns
    dsmod.wait = fake_wait
    dsmod.logging.config.dictConfig = lambda cfg: None
    try:
        with fakezmq.patched(net):
            servers = {}
            sent_once: set = set()
            answered: set = set()  # transfers whose payload was processed at the target / fetches whose payload reached the controller
            for h in hosts:
                s = dsmod.DataServer(f"tcp://{h}:m", f"tcp://{h}:d", h, 0, {})
                pools[h] = LazyPool()
                s.ds_proc_tp = pools[h]
                servers[h] = s

                def _sp(command, _s=s, _orig=s.send_payload):
                    sent_once.add(command.idx)
                    return _orig(command)

                s.send_payload = _sp

                def _st(payload, _s=s, _orig=s.store_payload):
                    r = _orig(payload)
                    answered.add(payload.header.confirm_idx)
                    return r

                s.store_payload = _st
                net.inbox.setdefault(f"tcp://{h}:m", [])
            clis = comms.Listener(CTRL)
            csnd = comms.ReliableSender(CTRL, 800)
            for h in hosts:
                csnd.add_host("data." + h, f"tcp://{h}:d")
            announcements: dict = {}
            failures: list = []
            payloads_at_ctrl: list = []
            # ground truth of what was asked
            transfers: list[dict] = []
            purged_at: dict = {}  # (host, ds) -> True once the purge command was *processed* by the server
            purge_sent: set = set()
            script = list(c["script"])
            idx = [0]
            drops: dict = {}
            age: dict = {}

            def holds(h, i) -> bool:
                return env.stores[h].has(ds2shmid(dsid[i]))

            def drain_m(h):
                box = net.inbox[f"tcp://{h}:m"]
                while box:
                    m = serde.des_message(box.pop(0)[0])
                    if isinstance(m, DatasetPublished):
                        announcements.setdefault((h, m.ds), []).append(m)
                        if (h, m.ds) in purged_at:
                            raise Violation(f"{h} announced {m.ds} after it had processed the purge of that dataset", "announce-after-purge")
                    elif isinstance(m, DatasetTransmitFailure):
                        failures.append((h, m))

            def on_purge(h, key):
                drain_m(h)
                for d in dsid:
                    if ds2shmid(d) == key:
                        purged_at[(h, d)] = True

            env.on_purge = on_purge

            def server_turn(h):
                env.cur = h
                s = servers[h]
                s.terminating = False
                orig = s.dlistener.recv_messages

                def once(timeout_ms=comms.default_timeout_ms):
                    ms = orig(timeout_ms)
                    s.terminating = True
                    for m in ms:
                        if isinstance(m, DatasetPurge):
                            pending_tr = any(t["ds"] == m.ds and t["status"] == "open" and h in (t["src"], t["dst"]) for t in transfers)
                            if pending_tr:
                                stats["purge_during_transfer"] += 1
                    return ms

                s.dlistener.recv_messages = once
                try:
                    # a server iterates far faster than any retry timer fires: let it work through what has arrived
                    for _it in range(60):
                        s.terminating = False
                        s.recv_loop()
                        if not net.inbox.get(f"tcp://{h}:d"):
                            break
                except Exception as e:
                    raise Violation(f"data server {h} loop raised {type(e).__name__}: {e}", "server-raised")
                finally:
                    s.dlistener.recv_messages = orig
                drain_m(h)

            def do_cmd(op):
                k, di, a, b = op
                ds = dsid[di]
                if k == "transmit":
                    src = hosts[a % len(hosts)]
                    dst = hosts[b % len(hosts)]
                    if src == dst or not holds(src, di) or (src, ds) in purge_sent or (dst, ds) in purge_sent:
                        stats["skipped_cmds"] += 1
                        return
                    t = {"kind": "transmit", "ds": ds, "di": di, "src": src, "dst": dst, "idx": idx[0], "status": "open",
                         "redundant": holds(dst, di) or any(x["dst"] == dst and x["ds"] == ds for x in transfers)}
                    transfers.append(t)
                    stats["transfers"] += 1
                    csnd.send("data." + src, DatasetTransmitCommand(source=src, target=dst, daddress=f"tcp://{dst}:d", ds=ds, idx=idx[0]))
                    idx[0] += 1
                elif k == "fetch":
                    src = hosts[a % len(hosts)]
                    if not holds(src, di) or (src, ds) in purge_sent:
                        stats["skipped_cmds"] += 1
                        return
                    t = {"kind": "fetch", "ds": ds, "di": di, "src": src, "dst": "controller", "idx": idx[0], "status": "open"}
                    transfers.append(t)
                    stats["fetches"] += 1
                    csnd.send("data." + src, DatasetTransmitCommand(source=src, target="controller", daddress=CTRL, ds=ds, idx=idx[0]))
                    idx[0] += 1
                else:
                    h = hosts[a % len(hosts)]
                    if (h, ds) in purge_sent:
                        stats["skipped_cmds"] += 1
                        return
                    as_source = [t for t in transfers if t["ds"] == ds and t["src"] == h]
                    if any(t["idx"] not in answered for t in as_source):
                        stats["skipped_cmds"] += 1  # the controller never purges a source with an unanswered transfer (C04)
                        return
                    if k == "purge_source" and not as_source:
                        stats["skipped_cmds"] += 1
                        return
                    purge_sent.add((h, ds))
                    stats["purges"] += 1
                    comms.callback(f"tcp://{h}:d", DatasetPurge(ds=ds))

            def ctrl_turn():
                got = []
                for _it in range(200):  # the receive loop runs far faster than the 800 ms retry timer: work through the backlog
                    got += clis.recv_messages(0)
                    if not net.inbox.get(CTRL):
                        break
                for m in got:
                    if isinstance(m, Ack):
                        csnd.ack(m.idx)
                    elif isinstance(m, DatasetTransmitPayload):
                        payloads_at_ctrl.append(m)
                        answered.add(m.header.confirm_idx)
                        for t in transfers:
                            if t["kind"] == "fetch" and t["idx"] == m.header.confirm_idx:
                                t["status"] = "done"
                net.advance_ms(801)
                try:
                    csnd.maybe_retry()
                except ValueError as e:
                    raise Violation(f"controller gave up on a command under fair loss: {e}", "ctrl-gave-up")

            def update_status():
                for t in transfers:
                    if t["kind"] == "transmit" and t["status"] == "open":
                        if holds(t["dst"], t["di"]) and any(ev[0] == "allocate" and ev[1] == ds2shmid(t["ds"]) for ev in env.stores[t["dst"]].events) \
                                or (t["redundant"] and t["idx"] in servers[t["src"]].acks):
                            t["status"] = "done"
                        elif (t["dst"], t["ds"]) in purged_at:
                            t["status"] = "void"

            steps = 0
            while steps < 300:
                steps += 1
                opts = [("net", i) for i in range(len(net.inflight))]
                opts += [("turn", h) for h in hosts]
                opts += [("job", h, i) for h in hosts for i in range(len(pools[h].jobs))]
                opts.append(("ctrl",))
                if script:
                    opts.append(("cmd",))
                if not script and not net.inflight and steps > 5 and ch.choose(5) == 0:
                    break
                forced = [i for i, m in enumerate(net.inflight) if age.get(m["seq"], 0) >= 3]
                if c.get("slow_pool") and not forced:
                    wopts = [x for x in opts for _ in range(1 if x[0] == "job" else 8)]
                    o = wopts[ch.choose(len(wopts))]
                else:
                    o = ("net-deliver", forced[0]) if forced else opts[ch.choose(len(opts))]
                if o[0] == "cmd":
                    do_cmd(script.pop(0))
                elif o[0] in ("net", "net-deliver"):
                    i = o[1]
                    m = net.inflight[i]
                    kind, m0 = _kind(m["frames"])
                    fk = (kind, m["dst"], m0.idx, getattr(m0, "addr", ""))
                    fate = 0 if o[0] == "net-deliver" else ch.choose(4)
                    if fate == 1 and drops.get(fk, 0) >= 2:
                        fate = 0
                    if fate == 0:
                        net.deliver(i)
                    elif fate == 1:
                        drops[fk] = drops.get(fk, 0) + 1
                        stats["drop_" + kind] += 1
                        net.drop(i)
                    elif fate == 2:
                        if not m.get("dup"):
                            stats["dup_" + kind] += 1
                            net.duplicate(i)
                        net.deliver(i)
                elif o[0] == "turn":
                    if not net.inbox.get(f"tcp://{o[1]}:d"):
                        for m in net.inflight:
                            age[m["seq"]] = age.get(m["seq"], 0) + 1
                    server_turn(o[1])
                elif o[0] == "job":
                    env.cur = o[1]
                    pools[o[1]].run(o[2])
                    drain_m(o[1])
                else:
                    for m in net.inflight:
                        age[m["seq"]] = age.get(m["seq"], 0) + 1
                    ctrl_turn()
                update_status()
            for op in script:
                do_cmd(op)
            # loss-free drain
            for _r in range(80):
                while net.inflight:
                    net.deliver(0)
                for h in hosts:
                    env.cur = h
                    while pools[h].jobs:
                        pools[h].run(0)
                    drain_m(h)
                    server_turn(h)
                ctrl_turn()
                update_status()
                quiet = not net.inflight and not any(pools[h].jobs for h in hosts) and not csnd.inflight and \
                    not any(servers[h].awaiting_confirmation or servers[h].futs_in_progress for h in hosts)
                if quiet and _r > 3:
                    break
            else:
                raise Violation("no quiescence after 80 loss-free rounds: " + str({h: list(servers[h].awaiting_confirmation) for h in hosts}), "no-quiescence")
            # ---- final-state oracle
            for h in hosts:
                for i, d in enumerate(c["data"]):
                    ds = dsid[i]
                    key = ds2shmid(ds)
                    initially = hosts.index(h) in d["holders"]
                    sent_here = [t for t in transfers if t["kind"] == "transmit" and t["dst"] == h and t["ds"] == ds]
                    ann = announcements.get((h, ds), [])
                    allocs = [ev for ev in env.stores[h].events if ev[0] == "allocate" and ev[1] == key]
                    if (h, ds) in purge_sent:
                        if env.stores[h].has(key) and (h, ds) in purged_at:
                            raise Violation(f"{ds} is back on {h} after its purge was processed there", "resurrected")
                        continue
                    if initially:
                        e = env.stores[h].entries.get(key)
                        if e is None or bytes(e["data"]) != d["bytes"] or e["deser_fun"] != d["deser"]:
                            raise Violation(f"{h} lost or altered {ds} which it held from the start", "original-damaged")
                        if ann:
                            raise Violation(f"{h} announced {ds} {len(ann)} times although it already had it (redundant transfer)", "redundant-announced")
                        continue
                    if not sent_here:
                        if env.stores[h].has(key):
                            raise Violation(f"{h} holds {ds} that was never transferred to it", "invented-copy")
                        continue
                    e = env.stores[h].entries.get(key)
                    if e is None or not e["written"]:
                        raise Violation(f"{len(sent_here)} transfer(s) of {ds} to {h} were commanded but {h} does not hold it at quiescence", "not-stored")
                    if bytes(e["data"]) != d["bytes"]:
                        raise Violation(f"{ds} on {h} has bytes {bytes(e['data'])[:12]!r}..., the source's are {d['bytes'][:12]!r}...", "bytes-differ")
                    if e["deser_fun"] != d["deser"]:
                        raise Violation(f"{ds} on {h} has decoding function {e['deser_fun']!r}, the source's is {d['deser']!r}", "deser-differs")
                    if len(allocs) != 1:
                        raise Violation(f"{ds} was stored {len(allocs)} times on {h}", "stored-twice")
                    if len(ann) != 1:
                        raise Violation(f"{h} announced the arrival of {ds} {len(ann)} times (expected exactly once)", "announcements")
                    if ann[0].origin != h or ann[0].transmit_idx not in [t["idx"] for t in sent_here]:
                        raise Violation(f"announcement {ann[0]!r} does not identify host {h} / one of its transfers", "announcement-content")
            for t in transfers:
                if t["kind"] != "fetch":
                    continue
                got = [p for p in payloads_at_ctrl if p.header.confirm_idx == t["idx"]]
                d = c["data"][t["di"]]
                if len(got) != 1:
                    raise Violation(f"fetch #{t['idx']} of {t['ds']} handed the controller {len(got)} payloads", "fetch-count")
                if bytes(got[0].value) != d["bytes"] or got[0].header.deser_fun != d["deser"] or got[0].header.ds != t["ds"]:
                    raise Violation(f"fetch #{t['idx']} of {t['ds']} delivered {bytes(got[0].value)[:12]!r}/{got[0].header.deser_fun!r}", "fetch-bytes")
            if failures:
                raise Violation(f"a data server reported {failures[0][1]!r} although every command named a source holding the dataset", "spurious-failure")
            stats["redundant"] = sum(1 for t in transfers if t.get("redundant"))
    finally:
        dsmod.shm_client, dsmod.time_ns, dsmod.wait, dsmod.logging.config.dictConfig = saved
    nt = (stats["drop_data"] + stats["dup_data"]) >= 1 or stats["purge_during_transfer"] >= 1
    tags = [k for k, v in stats.items() if v]
    return nt, tags, common.fingerprint(ch.log)


_real_n = [0]
_REAL_LIMIT_S = float(__import__("os").environ.get("VERIF_REAL_LIMIT_S", "420"))


def _real_isolated(case, tcp_base: int, udp_base: int, prefix: str):
    """One execution of the real data plane in a forked child that leads a process group of its own, under a wall-clock limit.
    Every wait inside realdata has a time-out, the library's shm client has none: whatever stalls there (another run of this check
    on the same machine taking a port, a server that went away) must cost this sample, not the whole check. Returns the statistics,
    raises the child's Violation, or returns None when the limit was hit (counted as inconclusive by the caller)."""
    import glob
    import multiprocessing as mp
    import os
    import signal

    from .. import realdata

    ctx = mp.get_context("fork")
    pr, pw = ctx.Pipe(duplex=False)

    def child():
        try:
            os.setsid()
            try:
                res = ("ok", realdata.run_case(case, tcp_base, udp_base, prefix))
            except Violation as v:
                res = ("violation", str(v), v.clause)
            except common.HarnessError as e:
                res = ("harness", str(e))
            except BaseException as e:  # noqa: BLE001
                import traceback

                res = ("error", f"{type(e).__name__}: {e}\n{traceback.format_exc()}")
            pw.send(res)
            pw.close()
        finally:
            os._exit(0)

    p = ctx.Process(target=child, daemon=False)
    p.start()
    pw.close()
    res = None
    try:
        if pr.poll(_REAL_LIMIT_S):
            res = pr.recv()
    except EOFError:
        res = ("error", f"the real-sample process died without a result (exit code {p.exitcode})")
    finally:
        p.join(5 if res is not None else 0.1)
        try:
            os.killpg(p.pid, signal.SIGKILL)  # the sample's servers, whatever state they are in
        except (ProcessLookupError, PermissionError):
            pass
        p.join(5)
        for f in glob.glob(f"/dev/shm/{prefix}*"):
            try:
                os.unlink(f)
            except OSError:
                pass
    if res is None:
        return None
    if res[0] == "ok":
        return res[1]
    if res[0] == "violation":
        raise Violation(res[1], res[2])
    if res[0] == "harness":
        raise common.HarnessError(res[1])
    raise RuntimeError(res[1])


def _real_body(stats):
    """One sample of the real data plane: real shm servers, real DataServer processes, real zmq (harness/realdata.py)."""
    import os

    from .. import realdata

    def body(case):
        _real_n[0] += 1
        shard_i = int(os.environ.get("VERIF_SHARD", "0"))
        try:
            r = _real_isolated(case, 32000 + shard_i * 40 + (_real_n[0] % 8) * 4, 1000 + shard_i * 6, f"v7r{os.getpid() % 10000}x{_real_n[0] % 1000}")
        except Violation as v:
            if v.clause in ("bytes-differ", "fetch-bytes"):
                raise  # wrong bytes are wrong whenever they happen
            # something did not arrive in time: on a starved machine that is not the library's doing. The same script once more;
            # only a failure that recurs is reported
            _real_n[0] += 1
            try:
                r = _real_isolated(case, 32000 + shard_i * 40 + (_real_n[0] % 8) * 4, 1000 + shard_i * 6, f"v7r{os.getpid() % 10000}y{_real_n[0] % 1000}")
            except Violation as v2:
                raise Violation(f"{v2} (on both of two executions; the first: {v})", v2.clause)
            if stats is not None:
                stats.inconclusive += 1
        if r is None:
            # the wall-clock limit of the sample was hit: nothing learnt about the code under test
            if stats is not None:
                stats.inconclusive += 1
            return False, ["real_data_plane_sample_timed_out"]
        nt = r["transfers"] - r["redundant"] >= 1 and r["concurrent_commands"] >= 3
        return nt, ["real_data_plane_sample"] + (["real_redundant_transfer"] if r["redundant"] else []) + (["real_fetch"] if r["fetches"] else []) + \
            (["real_payload_over_1MB"] if any(d["size"] > 1_000_000 for d in case["datasets"]) else [])

    return body


def shard(seed, cases_n, tier):
    from hypothesis import strategies as st

    from .. import realdata

    # real-process samples first (they fork; the in-memory harness below starts threads)
    real = Stats()
    common.hyp_run(st.composite(realdata.cases)(), _real_body(real), real, seed + 23, 4 if tier == "thorough" else 1, shrink=False, skip_first=True)
    if real.violations:
        return real
    st_ = Stats()
    common.hyp_run(cases(), run_case, st_, seed, cases_n)
    st_.merge(real)
    return st_


def replay(case):
    if "datasets" in case and "script" in case and "hosts" not in case:
        _real_body(None)(case)
        return
    c = case
    if "case" in case and "log" in case:
        c = dict(case["case"])
        c["log"] = case["log"]
    run_case(c, {})
