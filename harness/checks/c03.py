"""C03 — a feasible job always completes: no deadlock, livelock or scheduler crash."""

from __future__ import annotations

from .. import simcheck

PROPERTY = "C03"
LEVEL = "exploration"
FAMILY = "C03"
RULE = (
    "cases = the cluster simulation of C01 with feasibility by construction (>=1 worker, a GPU worker iff a task needs one, requested "
    "outputs belong to the job), empty jobs, single tasks, more components than hosts and fewer, and in a quarter of the cases an "
    "executor failure injected at the k-th wait. Oracle: run() returns normally (no exception of any kind from the controller's "
    "bookkeeping), never waits when nothing is running/queued/in flight, never spins (every round issues a command or waits; 100 idle "
    "rounds = livelock), rounds <= 3*(events + commands) + 10, at return all tasks ran, all requested values present, shutdown called "
    "exactly once -- and also once when the bridge raises. non-trivial = >=2 components and a host migration, or a GPU task waited "
    "for its worker, or more components than hosts; distinct = fingerprint of (case, event trace)"
)
ASSUMPTIONS = [
    "fairness is built in: every enabled simulator step is finite and the simulator never refuses to progress",
    "liveness is bounded liveness on finite generated runs; real-time behaviour (heartbeats, retry timers) belongs to C05/C06",
]
TIERS = {
    "quick": {"cases": 1600, "shards": 16},
    "thorough": {"cases": 160000, "shards": 16},
}
MANIFEST = {
    "engine": "clustersim",
    "technique": "model-based simulation testing: bounded-liveness and no-crash oracles over generated jobs, clusters and fair schedules",
    "text": "The real controller loop runs to completion against the simulated cluster for generated feasible jobs and fair event "
            "orders; deadlock (wait on nothing), livelock (idle rounds), bookkeeping exceptions, unbounded rounds, incomplete results and "
            "missing/duplicate shutdown are detected by the simulator and by a wrapper around the per-round plan() call.",
    "note": "Search, not proof; bounded liveness only.",
}


def _nt(c):
    return (c["components"] >= 2 and c["migrations"] > 0) or c["gpu_waits"] > 0 or c["components"] > c["hosts"]


def shard(seed, cases, tier):
    return simcheck.shard(FAMILY, _nt, seed, cases, tier)


def replay(case):
    simcheck.replay_case(FAMILY, case)
