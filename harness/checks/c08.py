"""C08 — the shared-memory store never hands out more memory than its capacity."""

from __future__ import annotations

from .. import common, shmmachine
from ..common import Stats, Violation

PROPERTY = "C08"
LEVEL = "exploration"
FAMILY = "C08"
RULE = (
    "cases = histories of 5-50 operations (thorough 5-80) over 6 keys and a capacity of 1-96 bytes (a seventh of them 8192 / 12288 "
    "bytes with datasets of 4095 / 4096 / 4097 / 8192 bytes: the disk code moves 4096-byte chunks; a fifth of the stores are "
    "configured with more than the mount offers and must trim themselves) against the real Manager on "
    "/dev/shm: allocate(key, size) from any number of concurrent writers, finish-write, get, close-read, purge, complete the i-th "
    "pending page-out/page-in job successfully or as a failure (lazy disk: any completion order; a job can also be stopped "
    "between its disk work and its completion callback), advance the virtual clock (ms, "
    "minutes, >15 min), persistent allocate/get (retry after completing all disk jobs), free-space query. After every operation: "
    "total size of resident datasets (model: written / readable / being paged out / being paged in) <= capacity, reported free space "
    "== capacity - that total, segment files on /dev/shm total <= capacity, oversize requests refused outright, requests larger than "
    "the free space answered wait and never granted. non-trivial = >=1 completed page-out followed by a grant and >=2 datasets "
    "simultaneously in transitional states; distinct = fingerprint of the history"
)
ASSUMPTIONS = [
    "a disk job has two atomic halves (the disk/segment work, then the completion callback into the Manager); requests may be "
    "scheduled between the halves, finer pre-emption is not explored; failures are realistic ones (spill directory not writable / "
    "spilled file gone)",
    "which datasets the store evicts is observed, not asserted (only that the choice is safe)",
    "real UDP transport and the 1024-byte datagram limit are out of scope here (codec: C17)",
]
TIERS = {
    "quick": {"cases": 4800, "shards": 16, "max_ops": 50},
    "thorough": {"cases": 320000, "shards": 16, "max_ops": 80},
}
MANIFEST = {
    "engine": "shm-machine",
    "technique": "model-based stateful property testing: generated request/job-completion histories against a dict model, invariants after every step",
    "text": "Generated histories of client requests interleaved with successful and failed completions of asynchronous page-out/page-in "
            "jobs run against the real Manager, lottery and disk code on the real /dev/shm; a model written from the statement "
            "accounts resident bytes and the three capacity invariants are checked after every operation.",
    "note": "Search, not proof. Thread pre-emption inside callbacks is not explored.",
}


def _known_f20() -> bool:
    return common.known_findings().listed("C08", "F20") or common.known_findings().listed("C09", "F20")


def _nt(m) -> bool:
    return m.stats["grant_after_pageout"] >= 1 and m.stats["max_transitional"] >= 2


def _tags(m) -> list[str]:
    s = m.stats
    t = []
    for k in ("failed_out", "failed_in", "purge_with_pending_pageout", "purge_during_read", "wait_then_granted", "read_after_cycle",
              "stale_jobs", "pageouts_done", "pageins_done", "persistent_unsatisfied", "job_split"):
        if s.get(k):
            t.append(k)
    if m.via_server:
        t.append("via_server_handler")
    return t


def body_for(family: str, nt, stats: Stats):
    def body(case):
        m = shmmachine.run_history(case, _known_f20())
        if m.f20_hits:
            stats.kf_hits["F20"] += m.f20_hits
        mine = [b for b in m.breaches if b[0] == family]
        if mine:
            raise Violation(mine[0][2], mine[0][1])
        return bool(nt(m)), _tags(m)

    return body


def shard(seed, cases, tier):
    st_ = Stats()
    common.hyp_run(shmmachine.histories(max_ops=TIERS[tier]["max_ops"]), body_for(FAMILY, _nt, st_), st_, seed, cases)
    return st_


def replay(case):
    m = shmmachine.run_history(case, _known_f20())
    mine = [b for b in m.breaches if b[0] == FAMILY]
    if mine:
        raise Violation(mine[0][2], mine[0][1])
