"""C11 — graph transformations preserve the computation the graph denotes.

Oracle: a symbolic interpreter den(node, output) = (payload, output, sorted((input name, den(parent output)))). Transformers mutate
their input, so reference denotations come from a second, untouched build of the same spec.
"""

from __future__ import annotations

import copy as _copy
from collections import Counter

from hypothesis import strategies as st

from .. import common
from ..common import Stats, Violation
from ..gengraph import (ADVERSARIAL, ATTR_NAMES, PARAM_NAMES, build_graph, den, expected_structure, graph_specs, node_den,
                        sink_indices, small_payloads, structure, walk, _freeze)

from earthkit.workflows.graph import (Graph, Node, copy_graph, deduplicate_nodes, expand_graph, fuse_nodes, rename_nodes,  # noqa: E402
                                      split_graph)

PROPERTY = "C11"
LEVEL = "exploration"
RULE = (
    "cases = (transformation, DAG spec of 1-12 nodes with unique names over the adversarial alphabet {a,b,m,n,i,.,-,:,_} (names that "
    "are prefixes of / share characters with other names), default / named / no outputs, 0-3 inputs, several sinks, shared "
    "sub-expressions, deliberate duplicates and near-duplicates) plus per transformation: an injective renaming; a generated "
    "fuse decision per candidate with a faithful fused-node builder; a generated key map node->{0,1,2} for split; for expand a "
    "generated sub-graph (1-5 nodes; inner names may carry the expanded node's own dotted prefix; leaves are output-less sinks or "
    "terminals declaring the default output), input map and output map for a generated subset of nodes (consumed nodes, output-less "
    "sinks, and terminal nodes that declare outputs); for dedup optionally a history: de-duplicate, make two nodes equal in place, "
    "de-duplicate again. A counted class uses output names "
    "that collide with node attributes (name, payload, inputs, outputs, copy) and input names that collide with callback "
    "parameters (node, n, s, p). non-trivial = the graph has >=1 shared sub-expression and >=2 sinks, and per transformation: "
    "dedup >=1 real duplicate; fuse >=1 fusion performed; expand >=1 expanded node with a consumer; split >=1 cut edge; "
    "copy/rename >=3 nodes; distinct = fingerprint of the case"
)
ASSUMPTIONS = [
    "expanded nodes are consumed (non-terminal) nodes, output-less sinks, or terminal nodes that declare outputs; every consumed output "
    "of an expanded node (every declared output, for a terminal one) is mapped to an existing output-less sink of the sub-graph (what "
    "the output map is documented to select); a selected output-less sink becomes a processor with the default output (splice_sink) "
    "and, when the expanded node was terminal, stays a sink of the result",
    "leaves selected by an output map are terminal nodes of the sub-graph that are output-less or declare just the default output; "
    "unmapped inner sinks of a consumed expanded node are not required to survive",
    "the fusion callback used is denotation-preserving by construction; the check additionally demands the documented rule that a "
    "candidate is offered only when the parent has no other consumer",
    "CutEdge names are hash based (PYTHONHASHSEED=0 in the runner); a hash collision between two cut edges would be reported",
]
TIERS = {
    "quick": {"cases": 4000, "shards": 8},
    "thorough": {"cases": 400000, "shards": 16},
}
MANIFEST = {
    "engine": "structural-oracle",
    "technique": "property-based testing (Hypothesis) against a denotational reference interpreter; reference expansion / re-join written independently",
    "text": "Generated DAGs with adversarial names are copied, renamed, de-duplicated, fused, expanded and split; sink denotations "
            "(computed by an independent symbolic interpreter on an untouched twin of the graph) must be unchanged, de-duplication "
            "must leave no duplicate and be idempotent, split parts must partition the nodes and re-join along the reported cuts to "
            "the original structure, expansion must equal an independent reference expansion.",
    "note": "Search, not proof. Domain restrictions for expand are listed in the assumptions.",
}

OPS = ["copy", "rename", "dedup", "fuse", "expand", "split"]


# ---------------------------------------------------------------------------------------------- generators

@st.composite
def sub_specs(draw, need_sinks: list[str], source_names_hint: list[str], prefix: str | None = None):
    """Sub-graph: sources, processors and output-less sinks; sink names include `need_sinks`. With `prefix`, some inner names
    start with "<expanded node's name>." -- the very prefix the splicer adds to (and strips from) inner names."""
    n_src = draw(st.integers(1, 2))
    n_proc = draw(st.integers(0, 2))
    extra_sinks = draw(st.integers(0, 1))
    name_st = st.text(alphabet=ADVERSARIAL, min_size=1, max_size=3)
    want = n_src + n_proc + extra_sinks + 2 + len(need_sinks)  # some may be filtered out below; keep enough
    pool = draw(st.lists(name_st, min_size=want, max_size=want, unique=True))
    if prefix is not None:
        pool = [(prefix + "." + p if draw(st.booleans()) else p) for p in pool]
        pool = list(dict.fromkeys(pool))
    pool = [p for p in pool if p not in need_sinks]
    nodes: list[dict] = []
    for i in range(n_src):
        nm = draw(st.sampled_from(source_names_hint)) if source_names_hint and draw(st.booleans()) else pool.pop()
        if any(nd["name"] == nm for nd in nodes) or nm in need_sinks or nm in pool:
            nm = pool.pop()
        outs = draw(st.sampled_from([None, None, ["0", "1"], ["x"]]))
        nodes.append({"name": nm, "outputs": outs, "payload": draw(small_payloads), "inputs": {}})
    for i in range(n_proc):
        ins = {}
        for k in draw(st.lists(st.sampled_from(["a", "b", "input"]), min_size=1, max_size=2, unique=True)):
            src = draw(st.integers(0, len(nodes) - 1))
            so = nodes[src]["outputs"]
            ins[k] = [src, "0" if so is None else draw(st.sampled_from(so))]
        nodes.append({"name": pool.pop(), "outputs": None, "payload": draw(small_payloads), "inputs": ins})
    n_with_out = len(nodes)
    sink_names = list(need_sinks) + [pool.pop() for _ in range(extra_sinks)]
    for nm in sink_names:
        ins = {}
        for k in draw(st.lists(st.sampled_from(["a", "b", "input"]), min_size=1, max_size=2, unique=True)):
            src = draw(st.integers(0, n_with_out - 1))
            so = nodes[src]["outputs"]
            ins[k] = [src, "0" if so is None else draw(st.sampled_from(so))]
        # a leaf selected by the output map is a terminal node of the sub-graph: an output-less sink, or a terminal that still
        # declares the default output (consumers of the expanded node are wired to that output)
        outs = draw(st.sampled_from([[], [], None])) if nm in need_sinks else []
        nodes.append({"name": nm, "outputs": outs, "payload": draw(small_payloads), "inputs": ins})
    return {"nodes": nodes}


@st.composite
def cases(draw):
    op = draw(st.sampled_from(OPS))
    collide = draw(st.integers(0, 9)) == 0
    spec = draw(graph_specs(max_nodes=12, min_nodes=1, names="adversarial", attr_outputs=collide, param_inputs=collide,
                            dup_bias=(op in ("dedup", "copy", "rename"))))
    c: dict = {"op": op, "spec": spec, "collide": collide}
    n = len(spec["nodes"])
    if op == "rename":
        new = draw(st.lists(st.text(alphabet=ADVERSARIAL + "xyz", min_size=1, max_size=5), min_size=n, max_size=n, unique=True))
        c["rename"] = new
    elif op == "fuse":
        c["decisions"] = draw(st.lists(st.booleans(), max_size=24))
    elif op == "split":
        c["keys"] = [draw(st.integers(0, 2)) for _ in range(n)]
    elif op == "expand":
        cons: dict[int, set] = {}
        for nd in spec["nodes"]:
            for (src, out) in nd["inputs"].values():
                cons.setdefault(src, set()).add(out)
        exps = {}
        for i, nd in enumerate(spec["nodes"]):
            outs = ["0"] if nd["outputs"] is None else nd["outputs"]
            terminal_with_outputs = bool(outs) and i not in cons
            if draw(st.integers(0, 2)) != 0:
                continue
            # a terminal node that declares outputs (every fluent graph ends in such nodes) is expanded like a consumed one: its
            # outputs are mapped to leaves of the sub-graph -- nobody consumes them, so they stay sinks of the result
            consumed_outs = sorted(cons.get(i, set())) if not terminal_with_outputs else sorted(outs)
            style = draw(st.sampled_from(["maps", "none"]))
            if style == "none":
                need = list(consumed_outs)  # sink names must equal the output names
                omap = None
            else:
                k = draw(st.integers(1, max(1, len(consumed_outs)))) if consumed_outs else 0
                need = draw(st.lists(st.text(alphabet=ADVERSARIAL, min_size=1, max_size=4), min_size=k, max_size=k, unique=True))
                pref = None
                if draw(st.integers(0, 3)) == 0:
                    # inner names that already carry the expanded node's own name as a dotted prefix (once or twice), next to
                    # inner names that are the un-prefixed remainder
                    pref = nd["name"] if draw(st.booleans()) else nd["name"] + "." + nd["name"]
                    need = list(dict.fromkeys((pref + "." + x if draw(st.booleans()) else x) for x in need))
                omap = {o: draw(st.sampled_from(need)) for o in consumed_outs} if need else {}
            sub = draw(sub_specs(need, sorted(nd["inputs"].keys()), pref if style != "none" else None))
            srcs = [x["name"] for x in sub["nodes"] if not x["inputs"]]
            if style == "none" or not nd["inputs"] or draw(st.booleans()):
                imap = None
            else:
                imap = {s: draw(st.sampled_from(sorted(nd["inputs"].keys()))) for s in srcs if draw(st.booleans())}
            exps[str(i)] = {"sub": sub, "imap": imap, "omap": omap}
        c["expansions"] = exps
    return c


# ---------------------------------------------------------------------------------------------- helpers

def _sinks_den(graph: Graph, unfold=None) -> Counter:
    memo: dict = {}
    return Counter(node_den(s, memo, unfold) for s in graph.sinks)


def _shared_and_multi_sink(spec) -> bool:
    cnt = Counter(v[0] for nd in spec["nodes"] for v in nd["inputs"].values())
    return any(v >= 2 for v in cnt.values()) and len(sink_indices(spec)) >= 2


def _guard(what, f):
    try:
        return f()
    except Violation:
        raise
    except Exception as e:
        raise Violation(f"{what} raised {type(e).__name__}: {e}", "raises")


# ---------------------------------------------------------------------------------------------- the checks

def run_case(c) -> tuple[bool, list[str]]:
    op, spec = c["op"], c["spec"]
    classes = ["op:" + op] + (["colliding_names"] if c.get("collide") else [])
    ref_graph, _ref_objs = build_graph(spec)
    ref = _sinks_den(ref_graph)
    g, objs = build_graph(spec)
    shared = _shared_and_multi_sink(spec)
    n = len(spec["nodes"])
    nt = False

    if op == "copy":
        out = _guard("copy_graph", lambda: copy_graph(g))
        if _sinks_den(out) != ref:
            raise Violation("copy_graph changed the sink denotations", "copy-den")
        orig_ids = {id(x) for x in objs}
        if any(id(x) in orig_ids for x in walk(out)):
            raise Violation("copy_graph returned a node object of the original graph", "copy-shares-nodes")
        st_o, cnt = structure(g)
        exp = expected_structure(spec)
        if cnt != n or any(len(v) != 1 or v[0] != exp[k] for k, v in st_o.items()) or set(st_o) != set(exp):
            raise Violation("copy_graph changed the original graph", "copy-mutates-original")
        st_c, cnt_c = structure(out)
        if cnt_c != n or set(st_c) != set(exp) or any(v[0] != exp[k] for k, v in st_c.items()):
            raise Violation("the copy differs structurally from the original", "copy-structure")
        nt = shared and n >= 3
    elif op == "rename":
        mapping = {nd["name"]: new for nd, new in zip(spec["nodes"], c["rename"])}
        out = _guard("rename_nodes", lambda: rename_nodes(lambda s: mapping[s], g))
        if _sinks_den(out) != ref:
            raise Violation("rename_nodes changed the sink denotations", "rename-den")
        got_names = Counter(x.name for x in walk(out))
        if got_names != Counter(mapping.values()):
            raise Violation(f"rename_nodes: names {sorted(got_names)} expected {sorted(mapping.values())}", "rename-names")
        nt = shared and n >= 3
    elif op == "dedup":
        out = _guard("deduplicate_nodes", lambda: deduplicate_nodes(g))
        if set(_sinks_den(out)) != set(ref):
            raise Violation("deduplicate_nodes changed the set of sink denotations", "dedup-den")
        nodes = walk(out)
        seen = {}
        for x in nodes:
            key = (_freeze(x.payload), tuple(x.outputs), tuple(sorted((k, id(v.parent), v.name) for k, v in x.inputs.items())))
            if key in seen:
                raise Violation(f"after de-duplication nodes {seen[key].name!r} and {x.name!r} have equal payload, outputs and inputs",
                                "dedup-leaves-duplicate")
            seen[key] = x
        before = Counter(node_den(x) for x in nodes)
        out2 = _guard("deduplicate_nodes (2nd)", lambda: deduplicate_nodes(out))
        nodes2 = walk(out2)
        if len(nodes2) != len(nodes) or Counter(node_den(x) for x in nodes2) != before:
            raise Violation("deduplicate_nodes is not idempotent", "dedup-idempotent")
        # the graph lives on: a later in-place change makes two of the surviving nodes equal (same outputs, same inputs, now the
        # same payload) -- de-duplicating again must merge them, whatever the first pass remembered about them
        by_shape: dict = {}
        for x in nodes2:
            k2 = (tuple(x.outputs), tuple(sorted((k, id(v.parent), v.name) for k, v in x.inputs.items())))
            by_shape.setdefault(k2, []).append(x)
        twins = next((v for v in by_shape.values() if len({repr(_freeze(y.payload)) for y in v}) >= 2), None)
        if twins is not None:
            twins[1].payload = twins[0].payload
            den3 = set(_sinks_den(out2))
            out3 = _guard("deduplicate_nodes (after an in-place change)", lambda: deduplicate_nodes(out2))
            if set(_sinks_den(out3)) != den3:
                raise Violation("deduplicate_nodes (after an in-place change of a payload) changed the set of sink denotations", "dedup-den")
            seen3 = {}
            for x in walk(out3):
                key = (_freeze(x.payload), tuple(x.outputs), tuple(sorted((k, id(v.parent), v.name) for k, v in x.inputs.items())))
                if key in seen3:
                    raise Violation(f"two nodes were made equal in place after a first de-duplication; the next de-duplication leaves both "
                                    f"({seen3[key].name!r} and {x.name!r})", "dedup-leaves-duplicate")
                seen3[key] = x
            classes.append("dedup_again_after_in_place_change")
        real_dup = len(nodes) < n
        if real_dup:
            classes.append("real_duplicate")
        nt = real_dup and n >= 3
    elif op == "fuse":
        nt = _check_fuse(c, g, objs, ref, spec, classes)
    elif op == "split":
        nt = _check_split(c, g, objs, spec, classes)
    elif op == "expand":
        nt = _check_expand(c, g, objs, spec, classes)
    if shared:
        classes.append("shared_subexpr_multi_sink")
    return nt, classes


# --- fuse

def _is_fused(p):
    return isinstance(p, tuple) and len(p) == 5 and p[0] == "\x00F"


def _unfold_payload(payload, output, ins: dict):
    if _is_fused(payload):
        _t, ppay, pout, cpay, cin = payload
        pre = cin + ">"
        pins = {k[len(pre):]: d for k, d in ins.items() if k.startswith(pre)}
        cins = {k: d for k, d in ins.items() if not k.startswith(pre)}
        cins[cin] = _unfold_payload(ppay, pout, pins)
        return _unfold_payload(cpay, output, cins)
    return (_freeze(payload), output, tuple(sorted(ins.items())))


def _unfold(node, output, ins, d):
    return _unfold_payload(node.payload, output, dict(ins))


def _check_fuse(c, g, objs, ref, spec, classes) -> bool:
    decisions = list(c["decisions"])
    edge_count = Counter(v[0] for nd in spec["nodes"] for v in nd["inputs"].values())
    name2idx = {nd["name"]: i for i, nd in enumerate(spec["nodes"])}
    state = {"fused": 0, "offered": 0}
    consumers_of_obj: dict = {}

    def cb(parent: Node, pout: str, cur: Node, cin: str):
        state["offered"] += 1
        # documented: a candidate is offered only if the parent has no other consumer
        pc = consumers_of_obj.get(id(parent))
        if pc is None:
            pc = edge_count.get(name2idx.get(parent.name, -1), 0) if not _is_fused(parent.payload) else None
        if pc is not None and pc > 1:
            raise Violation(f"fusion offered for parent {parent.name!r} which has {pc} consuming edges", "fuse-multi-consumer")
        take = decisions.pop(0) if decisions else False
        if not take:
            return None
        state["fused"] += 1
        ins = {k: v for k, v in cur.inputs.items() if k != cin}
        for k, v in parent.inputs.items():
            ins[f"{cin}>{k}"] = v
        fused = Node(cur.name, list(cur.outputs), ("\x00F", parent.payload, pout, cur.payload, cin), **ins)
        consumers_of_obj[id(fused)] = edge_count.get(name2idx.get(cur.name, -1), 0)
        return fused

    out = _guard("fuse_nodes", lambda: fuse_nodes(cb, g))
    got = Counter()
    memo: dict = {}
    for s in out.sinks:
        got[node_den(s, memo, _unfold)] += 1
    if got != ref:
        raise Violation(f"fuse_nodes changed the sink denotations ({state['fused']} fusions)", "fuse-den")
    if state["fused"]:
        classes.append("fused")
    refused = any(v >= 2 for v in edge_count.values())
    if refused:
        classes.append("multi_consumer_parent_present")
    return state["fused"] >= 1 and len(spec["nodes"]) >= 3


# --- split

def _check_split(c, g, objs, spec, classes) -> bool:
    keys = {nd["name"]: k for nd, k in zip(spec["nodes"], c["keys"])}
    exp = expected_structure(spec)
    parts, cuts = _guard("split_graph", lambda: split_graph(lambda nd: keys[nd.name], g))
    exp_cuts = Counter()
    for nd in spec["nodes"]:
        for iname, (src, out) in nd["inputs"].items():
            sn = spec["nodes"][src]["name"]
            if keys[sn] != keys[nd["name"]]:
                exp_cuts[(keys[sn], sn, out, keys[nd["name"]], nd["name"], iname)] += 1
    got_cuts = Counter((cu.source_key, cu.source_node, cu.source_output, cu.dest_key, cu.dest_node, cu.dest_input) for cu in cuts)
    if got_cuts != exp_cuts:
        raise Violation(f"cut edges {sorted(got_cuts)} expected {sorted(exp_cuts)}", "split-cuts")
    cut_names = {cu.name: cu for cu in cuts}
    if len(cut_names) != len(cuts):
        raise Violation("two cut edges share a name", "split-cut-names")
    where: dict[str, list] = {}
    joined: dict[str, dict] = {}
    for k, part in parts.items():
        for x in walk(part):
            if x.name in cut_names and x.name not in exp:
                cu = cut_names[x.name]
                if x.inputs:  # the sink half
                    if k != cu.source_key or list(x.inputs.values())[0].parent.name != cu.source_node or \
                            list(x.inputs.values())[0].name != cu.source_output:
                        raise Violation(f"cut sink {x.name} in part {k} is not attached to {cu.source_node}.{cu.source_output}", "split-cut-sink")
                elif k != cu.dest_key:
                    raise Violation(f"cut source {x.name} placed in part {k}, expected {cu.dest_key}", "split-cut-source")
                continue
            where.setdefault(x.name, []).append(k)
            ins = {}
            for iname, v in x.inputs.items():
                if v.parent.name in cut_names and v.parent.name not in exp:
                    cu = cut_names[v.parent.name]
                    if (cu.dest_node, cu.dest_input) != (x.name, iname):
                        raise Violation(f"node {x.name!r} input {iname!r} wired to the cut of {cu.dest_node}.{cu.dest_input}", "split-rewire")
                    ins[iname] = (cu.source_node, cu.source_output)
                else:
                    ins[iname] = (v.parent.name, v.name)
            joined[x.name] = {"outputs": list(x.outputs), "payload": x.payload, "inputs": ins}
    for name in exp:
        if len(where.get(name, [])) != 1:
            raise Violation(f"node {name!r} occurs in parts {where.get(name, [])} (expected exactly one)", "split-partition")
        if where[name][0] != keys[name]:
            raise Violation(f"node {name!r} placed in part {where[name][0]}, key is {keys[name]}", "split-wrong-part")
    if set(where) != set(exp):
        raise Violation(f"split invented nodes {sorted(set(where) - set(exp))}", "split-invented")
    if joined != exp:
        diff = [k for k in exp if joined.get(k) != exp[k]]
        raise Violation(f"parts re-joined along the cuts differ from the original at {diff[:3]}: {joined.get(diff[0])} vs {exp[diff[0]]}", "split-rejoin")
    if exp_cuts:
        classes.append("cut_edge")
    return bool(exp_cuts) and len(spec["nodes"]) >= 3


# --- expand

def _check_expand(c, g, objs, spec, classes) -> bool:
    exps = c["expansions"]
    name2idx = {nd["name"]: i for i, nd in enumerate(spec["nodes"])}

    def expander(node: Node):
        e = exps.get(str(name2idx.get(node.name, -1)))
        if e is None:
            return None
        sub, _ = build_graph(e["sub"])
        if e["imap"] is None and e["omap"] is None:
            return sub
        return sub, e["imap"], e["omap"]

    # reference: denotation with expansions applied, straight from the specs
    memo: dict = {}

    def rden(i: int, out):
        key = (i, out)
        if key in memo:
            return memo[key]
        nd = spec["nodes"][i]
        ins_d = {k: rden(src, o) for k, (src, o) in nd["inputs"].items()}
        e = exps.get(str(i))
        if e is None:
            d = (_freeze(nd["payload"]), out, tuple(sorted(ins_d.items())))
        else:
            omap = e["omap"] if e["omap"] is not None else {}
            leaf = omap.get(out, out)
            d = sub_den(e, ins_d, leaf, "0")
        memo[key] = d
        return d

    def sub_den(e, ins_d, leaf_name, out, _m=None):
        sub = e["sub"]
        imap = e["imap"] if e["imap"] is not None else {k: k for k in ins_d}
        idx = {x["name"]: j for j, x in enumerate(sub["nodes"])}

        def sd(j, o):
            x = sub["nodes"][j]
            if not x["inputs"]:
                if x["name"] in imap and imap[x["name"]] in ins_d:
                    return (_freeze(x["payload"]), o, (("input", ins_d[imap[x["name"]]]),))
                return (_freeze(x["payload"]), o, ())
            return (_freeze(x["payload"]), o, tuple(sorted((k, sd(s, so)) for k, (s, so) in x["inputs"].items())))

        return sd(idx[leaf_name], out)

    exp_sinks = Counter()
    for i in sink_indices(spec):
        nd = spec["nodes"][i]
        e = exps.get(str(i))
        outs = ["0"] if nd["outputs"] is None else nd["outputs"]
        if e is None:
            exp_sinks[tuple(rden(i, o) for o in outs) if outs else rden(i, None)] += 1
        else:  # expanded terminal node: nothing consumes it, so all the sub-graph's terminal nodes become sinks of the result
            ins_d = {k: rden(src, o) for k, (src, o) in nd["inputs"].items()}
            omap = e["omap"] if e["omap"] is not None else {}
            selected = {omap.get(o, o) for o in outs}  # leaves the node's declared outputs map to
            for j in sink_indices(e["sub"]):  # every terminal node of the sub-graph, with or without outputs
                x = e["sub"]["nodes"][j]
                xo = ["0"] if x["outputs"] is None else x["outputs"]
                if not xo and x["name"] in selected:
                    # an output-less sink selected by the output map is spliced into a processor with the default output
                    exp_sinks[(sub_den(e, ins_d, x["name"], "0"),)] += 1
                elif not xo:
                    exp_sinks[sub_den(e, ins_d, x["name"], None)] += 1
                else:
                    exp_sinks[tuple(sub_den(e, ins_d, x["name"], o) for o in xo)] += 1

    out = _guard("expand_graph", lambda: expand_graph(expander, g))
    got = _sinks_den(out)
    if got != exp_sinks:
        raise Violation(f"expand_graph: sink denotations differ from the reference expansion ({len(exps)} expanded nodes); "
                        f"got-only={list((got - exp_sinks))[:1]} expected-only={list((exp_sinks - got))[:1]}", "expand-den")
    consumed = {v[0] for nd in spec["nodes"] for v in nd["inputs"].values()}
    with_consumer = [i for i in exps if int(i) in consumed]
    if with_consumer:
        classes.append("expanded_with_consumer")
    if any(exps[i]["omap"] for i in exps):
        classes.append("nontrivial_output_map")
    if any(spec["nodes"][int(i)]["outputs"] != [] and int(i) not in consumed for i in exps):
        classes.append("expanded_terminal_with_outputs")
    if exps:
        classes.append("expanded")
    return bool(with_consumer)


def shard(seed: int, cases_n: int, tier: str) -> Stats:
    st_ = Stats()
    common.hyp_run(cases(), run_case, st_, seed, cases_n)
    return st_


def replay(case) -> None:
    run_case(case)
