"""C18 — the gateway attributes progress/results to the right job and keeps the newest.

Real JobRouter, handle_fe, handle_controller, parse_request, serialize_response, request_response and the
controller report codec; sockets are in-memory; spawning a subprocess is patched out (not the property).
Histories are generated operation lists compared step by step with a dict model.
"""

from __future__ import annotations

import base64

from hypothesis import strategies as st

from .. import common, fakezmq
from ..common import Stats, Violation

import cascade.controller.report as report  # noqa: E402
import cascade.gateway.api as gapi  # noqa: E402
import cascade.gateway.client as gclient  # noqa: E402
import cascade.gateway.router as router  # noqa: E402
import cascade.gateway.server as server  # noqa: E402
from cascade.low.core import DatasetId  # noqa: E402

PROPERTY = "C18"
LEVEL = "exploration"
RULE = (
    "cases = histories of 1-40 operations over 1-4 jobs: submit (uuid source is a generated low-entropy sequence so the "
    "collision loop runs), controller report with generated timestamp (monotonic, out of order, duplicated), progress string or "
    "None, 0-2 results, shutdown notice, frontend progress query (known / unknown / empty id list), result query (known / unknown "
    "job and dataset; dataset ids that print alike), bursts of 2-4 reports delivered as one backlog on the controller socket, reports "
    "optionally produced by the controller's real Reporter; every response is compared with a dict model; non-trivial = >=2 jobs, >=1 report that arrives with a "
    "timestamp older than one already received for that job, and >=1 query answered while >=2 jobs are tracked; distinct = "
    "fingerprint of the operation list"
)
ASSUMPTIONS = [
    "reports for a job whose shutdown notice was handled are not delivered (the gateway unregisters that socket and never reads it again)",
    "on equal timestamps either progress is accepted; for repeated uploads of the same (job, dataset) any uploaded value is accepted",
    "subprocess spawning, getfqdn and real sockets are replaced; the request/response codecs and handlers are the real code",
]
TIERS = {
    "quick": {"cases": 2400, "shards": 8},
    "thorough": {"cases": 240000, "shards": 16},
}
MANIFEST = {
    "engine": "stateful-model",
    "technique": "model-based stateful property testing (Hypothesis-generated operation histories against a dict model)",
    "text": "Generated histories of submits, controller reports (reordered/duplicated timestamps, results, shutdown) and frontend "
            "queries run against the real JobRouter and frontend/controller handlers; each response must equal the model's answer "
            "(newest-timestamp progress, exact result bytes per (job, dataset), distinct job ids, error responses for unknown ids "
            "followed by correct service).",
    "note": "Search, not proof. The zmq serve loop itself (poller dispatch) is not run; handlers are invoked one message at a time.",
}

statuses = st.sampled_from(["0.00", "12.50", "50.00", "99.99", "100.00", "x"])
# ("t.0", "1") and ("t", "0.1") both print as "t.0.1"
ds = st.sampled_from([["t", "0"], ["t", "1"], ["u", "0"], ["t.0", "1"], ["t", "0.1"]])


@st.composite
def histories(draw):
    n = draw(st.integers(1, 40))
    ops = []
    for _ in range(draw(st.integers(0, 3))):  # usually a few jobs exist before reports and queries start
        ops.append(["submit", draw(st.lists(st.integers(0, 3), max_size=4))])
    for _ in range(n):
        k = draw(st.sampled_from(["submit", "report", "report", "report", "rreport", "rreport", "burst", "shutdown", "progress", "progress", "result", "result"]))
        if k == "submit":
            ops.append(["submit", draw(st.lists(st.integers(0, 3), max_size=4))])
        elif k == "report":
            ops.append(["report", draw(st.integers(0, 3)), draw(st.integers(0, 12)), draw(st.one_of(st.none(), statuses)),
                        draw(st.lists(st.tuples(ds, st.binary(min_size=0, max_size=6)).map(list), max_size=2))])
        elif k == "rreport":
            # the report is produced by the controller's real Reporter (progress computed from the scheduler state's counters, one
            # result per report, or the shutdown notice), with a generated clock
            total = draw(st.integers(1, 8))
            what = draw(st.sampled_from(["progress", "progress", "result", "shutdown"]))
            ops.append(["rreport", draw(st.integers(0, 3)), draw(st.integers(0, 12)), what, draw(st.integers(0, total)), total,
                        draw(ds), draw(st.binary(min_size=0, max_size=6))])
        elif k == "shutdown":
            ops.append(["shutdown", draw(st.integers(0, 3)), draw(st.integers(0, 12))])
        elif k == "burst":
            # several reports of one job waiting on its socket at one wake-up of the gateway (it was busy meanwhile); a shutdown
            # notice, if any, is the last of them
            j = draw(st.integers(0, 3))
            subs = []
            for _b in range(draw(st.integers(2, 3))):
                subs.append(["report", j, draw(st.integers(0, 12)), draw(st.one_of(st.none(), statuses)),
                             draw(st.lists(st.tuples(ds, st.binary(min_size=0, max_size=6)).map(list), max_size=1))])
            if draw(st.booleans()):
                subs.append(["shutdown", j, draw(st.integers(0, 12))])
            ops.append(["burst", j, subs])
        elif k == "progress":
            ops.append(["progress", draw(st.lists(st.integers(-1, 3), max_size=3))])
        else:
            ops.append(["result", draw(st.integers(-1, 3)), draw(ds)])
    return ops


class _CtrlSock:
    """The job's PULL socket as the gateway sees it when poll() says it is readable: one or more reports are waiting."""

    def __init__(self, raws: list[bytes]):
        self.queue = list(raws)

    def recv(self, flags: int = 0, *a, **k) -> bytes:
        if self.queue:
            return self.queue.pop(0)
        import zmq as real_zmq

        if flags & real_zmq.NOBLOCK:
            raise real_zmq.Again()
        raise common.HarnessError("gateway blocks on a controller socket that has nothing to read")


class _FeSock:
    def __init__(self, raw: bytes):
        self.raw = raw
        self.out: list[bytes] = []

    def recv(self) -> bytes:
        return self.raw

    def send(self, b: bytes) -> None:
        self.out.append(b)


class _Uuid:
    def __init__(self) -> None:
        self.queue: list[int] = []
        self.fresh = 0

    def uuid4(self):
        if self.queue:
            return f"id{self.queue.pop(0)}"
        self.fresh += 1
        return f"fresh{self.fresh}"


def _reporter_bytes(jid: str, ts: int, what: str, remaining: int, total: int, dsid, payload: bytes) -> bytes:
    """What the real controller-side Reporter puts on the wire for this event (socket and clock are stand-ins)."""
    sent: list[bytes] = []

    class _Sock:
        def connect(self, addr):
            pass

        def send(self, b):
            sent.append(bytes(b))

    class _Ctx:
        def socket(self, kind):
            return _Sock()

    class _State:
        pass

    saved = (report.get_context, report.monotonic_ns)
    report.get_context = lambda: _Ctx()
    report.monotonic_ns = lambda: ts
    try:
        rp = report.Reporter(f"tcp://gw:ctrl,{jid}")
        if what == "shutdown":
            rp.shutdown()
        elif what == "result":
            rp.send_result(dsid, payload)
        else:
            st_ = _State()
            st_.remaining, st_.total = remaining, total
            rp.send_progress(st_)
    except Exception as e:
        raise Violation(f"Reporter raised {type(e).__name__}: {e} for {what}", "reporter-raises")
    finally:
        report.get_context, report.monotonic_ns = saved
    if len(sent) != 1:
        raise Violation(f"Reporter sent {len(sent)} messages for one {what}", "reporter-count")
    return sent[0]


def run_case(ops) -> tuple[bool, list[str]]:
    net = fakezmq.Net()
    fz = net.module()
    uu = _Uuid()
    spawned: list = []
    saved = (router.zmq, router.get_context, router.getfqdn, router._spawn_subprocess, router.uuid, gclient.zmq)
    router.zmq = fz
    router.get_context = lambda: fz._ctx
    router.getfqdn = lambda: "gw"
    router._spawn_subprocess = lambda spec, addr, job_id: spawned.append((addr, job_id))
    router.uuid = uu
    gclient.zmq = fz
    try:
        return _run(ops, net, fz, uu, spawned)
    finally:
        router.zmq, router.get_context, router.getfqdn, router._spawn_subprocess, router.uuid, gclient.zmq = saved


def _run(ops, net, fz, uu, spawned):
    poller = fz.Poller()
    jobs = router.JobRouter(poller)
    state = {"shutdown_fe": False}

    def fe_handler(b: bytes) -> bytes:
        s = _FeSock(b)
        try:
            server.handle_fe(s, jobs)
        except Exception as e:
            raise Violation(f"frontend handler raised {type(e).__name__}: {e}", "fe-raises")
        if len(s.out) != 1:
            raise Violation(f"frontend handler sent {len(s.out)} responses", "fe-responses")
        return s.out[0]

    net.rep_handlers["tcp://gw:fe"] = fe_handler

    def ask(m):
        try:
            return gclient.request_response(m, "tcp://gw:fe")
        except Violation:
            raise
        except Exception as e:
            raise Violation(f"request {m!r} failed: {type(e).__name__}: {e}", "request-fails")

    ids: list[str] = []
    model: dict[str, dict] = {}
    classes: set[str] = set()
    ooo = 0
    cross = 0

    for op in ops:
        if op[0] == "submit":
            uu.queue = list(op[1])
            n_spawned = len(spawned)
            r = ask(gapi.SubmitJobRequest(job=gapi.JobSpec(benchmark_name="b", envvars={}, job_instance=None, workers_per_host=1,
                                                           hosts=1, use_slurm=False)))
            if r.error is not None or r.job_id is None:
                raise Violation(f"submit failed: {r!r}", "submit")
            if r.job_id in model:
                raise Violation(f"job id {r.job_id} was reused", "id-reuse")
            if len(spawned) != n_spawned + 1 or spawned[-1][1] != r.job_id:
                raise Violation(f"submit did not spawn exactly one controller for {r.job_id}", "spawn")
            ids.append(r.job_id)
            model[r.job_id] = {"cands": {-1: {"0.00"}}, "best": -1, "results": {}, "down": False}
            if any(x in [int(i[2:]) for i in ids[:-1] if i.startswith("id")] for x in op[1][:1]):
                classes.add("uuid_collision")
        elif op[0] in ("report", "shutdown", "rreport", "burst"):
            if not ids:
                continue
            jid = ids[op[1] % len(ids)]
            m = model[jid]
            if m["down"]:
                classes.add("report_after_shutdown_not_delivered")
                continue
            subs = op[2] if op[0] == "burst" else [op]
            if op[0] == "burst":
                classes.add("backlog_of_reports_at_one_wakeup")
            raws = []
            norm = []
            for so in subs:
                raw_override = None
                if so[0] == "rreport":
                    _k, _j, ts_, what, remaining, total, d_, b_ = so
                    raw_override = _reporter_bytes(jid, ts_, what, remaining, total, DatasetId(d_[0], d_[1]), b_)
                    classes.add("via_real_reporter")
                    if what == "shutdown":
                        so = ["shutdown", so[1], ts_]
                    elif what == "result":
                        so = ["report", so[1], ts_, None, [[d_, b_]]]
                    else:
                        # the progress string the Reporter documents: percentage done with two decimals, without the percent sign
                        so = ["report", so[1], ts_, f"{100.0 * (1.0 - remaining / total):.2f}", []]
                ts = so[2]
                if so[0] == "shutdown":
                    rep = report.ControllerReport(jid, report.JobProgressShutdown, ts, [])
                else:
                    rep = report.ControllerReport(jid, so[3], ts, [(DatasetId(d[0], d[1]), b) for d, b in so[4]])
                raws.append(raw_override if raw_override is not None else report.serialize(rep))
                norm.append(so)
            sock = _CtrlSock(raws)
            # the serve loop calls the handler as long as poll() reports the socket readable
            while sock.queue:
                before = len(sock.queue)
                try:
                    server.handle_controller(sock, jobs)
                except common.HarnessError:
                    raise
                except Exception as e:
                    raise Violation(f"controller handler raised {type(e).__name__}: {e} with reports {norm!r} waiting", "ctrl-raises")
                if len(sock.queue) >= before:
                    raise Violation("controller handler returned without reading the readable socket", "ctrl-reads-nothing")
            for so in norm:
                ts = so[2]
                if so[0] == "shutdown":
                    m["down"] = True
                    classes.add("shutdown")
                else:
                    if so[3] is not None:
                        if ts < m["best"]:
                            ooo += 1
                            classes.add("out_of_order_report")
                        elif ts == m["best"]:
                            classes.add("duplicate_timestamp")
                        m["cands"].setdefault(ts, set()).add(so[3])
                        m["best"] = max(m["best"], ts)
                    for d, b in so[4]:
                        m["results"].setdefault((d[0], d[1]), []).append(b)
        elif op[0] == "progress":
            req_ids = []
            unknown = False
            for i in op[1]:
                if i < 0 or not ids:
                    req_ids.append("nope")
                    unknown = True
                else:
                    req_ids.append(ids[i % len(ids)])
            r = ask(gapi.JobProgressRequest(job_ids=req_ids))
            if unknown:
                classes.add("unknown_job_query")
                if r.error is None:
                    raise Violation(f"progress query for unknown job answered without error: {r!r}", "unknown-no-error")
            else:
                if r.error is not None:
                    raise Violation(f"progress query {req_ids} failed: {r.error}", "progress-error")
                want = set(req_ids) if req_ids else set(ids)
                if set(r.progresses.keys()) != want:
                    raise Violation(f"progress query {req_ids}: answered for {sorted(r.progresses)} expected {sorted(want)}", "progress-keys")
                for j, p in r.progresses.items():
                    mm = model[j]
                    if p not in mm["cands"][mm["best"]]:
                        raise Violation(
                            f"job {j}: gateway shows progress {p!r} but the report with the greatest timestamp ({mm['best']}) "
                            f"carried {sorted(mm['cands'][mm['best']])}", "progress-not-newest")
                if len(ids) >= 2:
                    cross += 1
        elif op[0] == "result":
            unknown_job = op[1] < 0 or not ids
            jid = "nope" if unknown_job else ids[op[1] % len(ids)]
            d = (op[2][0], op[2][1])
            r = ask(gapi.ResultRetrievalRequest(job_id=jid, dataset_id=DatasetId(d[0], d[1])))
            have = (not unknown_job) and d in model[jid]["results"]
            if not have:
                classes.add("unknown_result_query")
                if r.error is None:
                    raise Violation(f"result query for unknown job/dataset {jid}/{d} answered without error: {r!r}", "unknown-no-error")
            else:
                if r.error is not None or r.result is None:
                    raise Violation(f"result query {jid}/{d} failed: {r!r}", "result-error")
                got = base64.b64decode(r.result)
                if got not in model[jid]["results"][d]:
                    raise Violation(f"result {jid}/{d}: got {got!r}, uploaded {model[jid]['results'][d]!r}", "result-bytes")
                classes.add("result_query_ok")
                if len(ids) >= 2:
                    cross += 1
    if len(set(ids)) != len(ids):
        raise Violation("job ids not pairwise distinct", "id-reuse")
    nontrivial = len(ids) >= 2 and ooo >= 1 and cross >= 1
    return nontrivial, sorted(classes)


def shard(seed: int, cases: int, tier: str) -> Stats:
    st_ = Stats()
    common.hyp_run(histories(), run_case, st_, seed, cases)
    return st_


def replay(case) -> None:
    run_case(case)
