"""C12 — serialising a graph and reading it back gives an equal graph."""

from __future__ import annotations

import json
import os
import shutil
import tempfile

import numpy as np
from hypothesis import strategies as st

from .. import common, payload_fns
from ..common import Stats, Violation
from ..gengraph import build_graph, expected_structure, graph_specs, json_payloads, small_payloads, structure

from earthkit.workflows import Cascade, fluent  # noqa: E402
from earthkit.workflows.graph import Graph, Node, deserialise, from_json, rename_nodes, serialise, to_json  # noqa: E402

PROPERTY = "C12"
LEVEL = "exploration"
RULE = (
    "cases = (route in {dict, json, cascade-file}, graph) where the graph is a generated DAG spec (0-12 nodes, unique names over any "
    "unicode text, nodes with default / named / no outputs, terminal nodes with and without outputs, edges from default and named "
    "outputs) or a generated fluent program (from_source over 1-2 dims, map, generator map with yields, reduce); payloads: any "
    "picklable value for dict, JSON-faithful values for json, module-level callables for the Cascade file; on the dict and json routes "
    "the graph may have a history: serialised once before, and then renamed in place (by a prefix, or by a rotation of its own names) "
    "before the round trip under test; or saved / loaded as a Cascade, extended with += by another graph, and saved again (the second "
    "file must describe the live graph); node and input names include the keys of a serialised record and the parameter names of the "
    "library's helpers, payloads may be record-shaped; additionally generated "
    "unequal pairs (one payload / edge endpoint / output list / extra node changed) on which Graph.__eq__ must answer False; "
    "non-trivial = >=1 terminal node that declares outputs and >=1 edge from a non-default output; distinct = fingerprint of the case"
)
ASSUMPTIONS = [
    "payload callables of the Cascade-file route are importable module-level functions (dill stores them by reference; lambdas come "
    "back as different objects, so 'equal payload' would be undecidable)",
    "JSON payloads are restricted to values JSON represents faithfully (no tuples, NaN, non-string keys)",
    "the result is judged by an independent traversal and structural comparison and by Graph.__eq__; the two verdicts must agree",
]
TIERS = {
    "quick": {"cases": 3200, "shards": 8},
    "thorough": {"cases": 320000, "shards": 16},
}
MANIFEST = {
    "engine": "structural-oracle",
    "technique": "round-trip property-based testing (Hypothesis) with an independent structural comparison, plus negative pairs for Graph.__eq__",
    "text": "Generated graphs (hand-built specs and fluent programs) are serialised and read back through dict, JSON and the Cascade "
            "file format; the result must contain exactly the original nodes with equal outputs, inputs and payloads as judged by an "
            "independent traversal, Graph.__eq__ must agree with that verdict, and must answer False on generated unequal pairs.",
    "note": "Search, not proof. Payload domain per route as stated in the assumptions.",
}


@st.composite
def fluent_specs(draw):
    dims = draw(st.integers(1, 2))
    shape = [draw(st.integers(1, 3)) for _ in range(dims)]
    ops = []
    cur = list(range(dims))
    for _ in range(draw(st.integers(0, 3))):
        k = draw(st.sampled_from(["map", "yields", "reduce"]))
        if k == "map":
            ops.append(["map", draw(st.sampled_from(["inc", "double"]))])
        elif k == "yields":
            if any(o[0] == "yields" for o in ops):
                continue
            ops.append(["yields", draw(st.sampled_from(["pair", "triple", "eleven"]))])
        elif cur:
            d = draw(st.sampled_from(cur))
            cur.remove(d)
            ops.append(["reduce", d])
    return {"shape": shape, "ops": ops}


def build_fluent(fs: dict) -> Graph:
    shape = fs["shape"]
    n = int(np.prod(shape))
    payloads = np.empty(shape, dtype=object)
    for idx in np.ndindex(*shape):
        payloads[idx] = fluent.Payload(payload_fns.SOURCES[sum(idx) % 2], [sum(idx)])
    dims = [f"d{i}" for i in range(len(shape))]
    a = fluent.from_source(payloads, dims=dims, coords={d: list(range(s)) for d, s in zip(dims, shape)})
    for op in fs["ops"]:
        if op[0] == "map":
            a = a.map(payload_fns.BY_NAME[op[1]])
        elif op[0] == "yields":
            k = {"pair": 2, "triple": 3, "eleven": 11}[op[1]]
            a = a.map(payload_fns.BY_NAME[op[1]], yields=("y", list(range(k))))
        else:
            a = a.reduce(payload_fns.total, dim=f"d{op[1]}")
    assert n >= 1
    return a.graph()


@st.composite
def cases(draw):
    route = draw(st.sampled_from(["dict", "json", "file", "neq"]))
    if route in ("dict", "neq"):
        kind = draw(st.sampled_from(["spec", "spec", "fluent"])) if route == "dict" else "spec"
    elif route == "json":
        kind = "spec"
    else:
        kind = draw(st.sampled_from(["spec", "fluent"]))
    c: dict = {"route": route, "kind": kind}
    if kind == "fluent":
        c["fluent"] = draw(fluent_specs())
    else:
        pl = json_payloads if route == "json" else (st.sampled_from(sorted(payload_fns.BY_NAME)) if route == "file" else
                                                   st.one_of(small_payloads, json_payloads))
        c["spec"] = draw(graph_specs(max_nodes=12, names="unicode", payloads=pl, dup_bias=False))
    if route in ("dict", "json") and kind == "spec":
        # history before the round trip under test: the graph was already serialised once (both routes), and then possibly renamed
        # in place -- by a prefix, or by a rotation of its own names (every name still occurs, on another node)
        c["history"] = draw(st.sampled_from([None, None, "serialised_before", "renamed_prefix", "renamed_rotation"]))
    if route == "file" and kind == "spec":
        c["history"] = draw(st.sampled_from([None, None, "saved_then_iadd", "loaded_then_iadd"]))
    if route == "neq":
        c["spec"] = draw(graph_specs(max_nodes=8, min_nodes=1, names="unicode", payloads=small_payloads, dup_bias=False))
        c["mut"] = [draw(st.sampled_from(["payload", "edge", "outputs", "extra", "input_name"])), draw(st.integers(0, 10**6))]
    return c


def _payload_fn(route):
    if route == "file":
        return lambda name: (payload_fns.BY_NAME[name], [1], {"k": 2})
    return None


def _struct_equal(got: dict, exp: dict) -> str | None:
    if set(got) != set(exp):
        return f"node names differ: lost {sorted(set(exp) - set(got), key=repr)} invented {sorted(set(got) - set(exp), key=repr)}"
    for name, lst in got.items():
        if len(lst) != 1:
            return f"{len(lst)} nodes named {name!r}"
        g, e = lst[0], exp[name]
        if g["outputs"] != e["outputs"]:
            return f"node {name!r}: outputs {g['outputs']} expected {e['outputs']}"
        if g["inputs"] != e["inputs"]:
            return f"node {name!r}: inputs {g['inputs']} expected {e['inputs']}"
        if g["payload"] != e["payload"] or type(g["payload"]) is not type(e["payload"]):
            return f"node {name!r}: payload {g['payload']!r} expected {e['payload']!r}"
    return None


_tmp = None


def _tmpdir() -> str:
    global _tmp
    if _tmp is None:
        _tmp = tempfile.mkdtemp(prefix="verif-c12-")
        import atexit

        atexit.register(shutil.rmtree, _tmp, True)
    return _tmp


def run_case(c) -> tuple[bool, list[str]]:
    route = c["route"]
    classes = ["route:" + route, "kind:" + c["kind"]]
    if route == "neq":
        return _neq(c, classes)
    if c["kind"] == "fluent":
        g = build_fluent(c["fluent"])
        st0, n0 = structure(g)
        exp = {k: v[0] for k, v in st0.items()}
        if any(len(v) != 1 for v in st0.values()):
            return False, classes + ["fluent_name_clash_skipped"]  # C14's subject, not C12's
    else:
        g, _objs = build_graph(c["spec"], _payload_fn(route))
        exp = expected_structure(c["spec"], _payload_fn(route))
        n0 = len(exp)
        hist = c.get("history")
        if hist:
            classes.append("history:" + hist)
            try:
                serialise(g)
                if route == "json":
                    to_json(g)
            except Exception as e:
                raise Violation(f"first serialisation raised {type(e).__name__}: {e}", "roundtrip-raises")
            if hist.startswith("renamed"):
                names = sorted(exp)
                if hist == "renamed_prefix":
                    new_name = {n: "r." + n for n in names}
                else:
                    new_name = {n: names[(i + 1) % len(names)] for i, n in enumerate(names)}
                try:
                    g = rename_nodes(new_name.__getitem__, g)
                except Exception as e:
                    raise Violation(f"rename_nodes raised {type(e).__name__}: {e}", "roundtrip-raises")
                exp = {new_name[n]: {**e, "inputs": {k: (new_name[pi[0]], pi[1]) for k, pi in e["inputs"].items()}} for n, e in exp.items()}
    try:
        if route == "dict":
            back = deserialise(serialise(g))
        elif route == "json":
            back = from_json(to_json(g))
        elif c.get("history") in ("saved_then_iadd", "loaded_then_iadd"):
            # a Cascade that was saved (or loaded) before, then grew by `+=`, is saved again: the second file holds the union
            classes.append("history:" + c["history"])
            path0 = os.path.join(_tmpdir(), "g0.dill")
            path = os.path.join(_tmpdir(), "g.dill")
            casc = Cascade(g)
            casc.serialise(path0)
            if c["history"] == "loaded_then_iadd":
                casc = Cascade.from_serialised(path0)
            extra_name = "\x00added-later"
            # (a payload no generated node has: `+=` de-duplicates, and an equal source node would legitimately be merged)
            extra = Node(extra_name, payload=(payload_fns.BY_NAME["double"], [987654], {"k": "added-later"}))
            casc += Cascade(Graph([extra]))
            g = casc._graph
            # `+=` de-duplicates the whole union (C11's subject): what must come back is the graph the Cascade holds NOW, read off
            # its live node objects -- and the node added after the first save must be part of it
            st_now, n0 = structure(g)
            if any(len(v) != 1 for v in st_now.values()):
                return False, classes + ["name_clash_after_iadd_skipped"]
            exp = {k: v[0] for k, v in st_now.items()}
            if extra_name not in exp:
                raise Violation("the node added with += is not in the Cascade's graph", "iadd-lost-node")
            casc.serialise(path)
            back = Cascade.from_serialised(path)._graph
            os.unlink(path)
            os.unlink(path0)
        else:
            path = os.path.join(_tmpdir(), "g.dill")
            Cascade(g).serialise(path)
            back = Cascade.from_serialised(path)._graph
            os.unlink(path)
    except Exception as e:
        raise Violation(f"{route} round trip raised {type(e).__name__}: {e}", "roundtrip-raises")
    got, n1 = structure(back)
    diff = _struct_equal(got, exp)
    try:
        eq = (back == g)
    except Exception as e:
        raise Violation(f"Graph.__eq__ raised {type(e).__name__}: {e}", "eq-raises")
    if diff is not None:
        raise Violation(f"{route} round trip of a {n0}-node graph: {diff} (Graph.__eq__ says {'equal' if eq else 'not equal'})", "roundtrip")
    if n1 != n0:
        raise Violation(f"{route} round trip: {n1} node objects, expected {n0}", "roundtrip-count")
    if not eq:
        raise Violation("independent comparison finds the graphs equal but Graph.__eq__ says not equal", "eq-disagrees")
    terminal_with_outputs = any(e["outputs"] and not any(name == pi[0] for other in exp.values() for pi in other["inputs"].values())
                                for name, e in exp.items())
    nondefault_edge = any(pi[1] != "0" for e in exp.values() for pi in e["inputs"].values())
    if terminal_with_outputs:
        classes.append("terminal_with_outputs")
    if nondefault_edge:
        classes.append("nondefault_output_edge")
    if not exp:
        classes.append("empty_graph")
    return terminal_with_outputs and nondefault_edge, classes


def _neq(c, classes):
    spec = c["spec"]
    kind, r = c["mut"]
    import copy

    s2 = copy.deepcopy(spec)
    i = r % len(s2["nodes"])
    nd = s2["nodes"][i]
    if kind == "payload":
        nd["payload"] = ["changed", nd["payload"]]
    elif kind == "outputs":
        cur = ["0"] if nd["outputs"] is None else nd["outputs"]
        nd["outputs"] = cur + ["zz"]
    elif kind == "extra":
        s2["nodes"].append({"name": "\x00extra", "outputs": None, "payload": 0, "inputs": {}})
    elif kind == "input_name":
        if not nd["inputs"]:
            return False, classes + ["neq_not_applicable"]
        k = sorted(nd["inputs"])[0]
        nd["inputs"]["renamed_" + k] = nd["inputs"].pop(k)
    else:  # edge endpoint
        if not nd["inputs"]:
            return False, classes + ["neq_not_applicable"]
        k = sorted(nd["inputs"])[0]
        src, out = nd["inputs"][k]
        alts = [[j, o] for j in range(i) for o in (["0"] if s2["nodes"][j]["outputs"] is None else s2["nodes"][j]["outputs"])
                if [j, o] != [src, out]]
        if not alts:
            return False, classes + ["neq_not_applicable"]
        nd["inputs"][k] = alts[r % len(alts)]
    g1, _ = build_graph(spec)
    g2, _ = build_graph(s2)
    if g1 == g2 or g2 == g1:
        raise Violation(f"Graph.__eq__ says equal for graphs that differ in {kind} of node {i}", "eq-misses-difference")
    if not (g1 == g1):
        raise Violation("Graph.__eq__ says a graph differs from itself", "eq-reflexive")
    return len(spec["nodes"]) >= 2, classes + ["neq:" + kind]


def shard(seed: int, cases_n: int, tier: str) -> Stats:
    st_ = Stats()
    common.hyp_run(cases(), run_case, st_, seed, cases_n)
    return st_


def replay(case) -> None:
    run_case(case)
