"""C19 — a job accepted by the builder is well formed and carries the values given.

Generator: callables synthesised with exec from generated signatures, TaskBuilder.with_values calls, JobBuilder
programs with existing or dangling edge endpoints, interleaved build() calls.
Oracle: an independent model of the documented validation + snapshot comparison for persistence.
"""

from __future__ import annotations

from hypothesis import strategies as st

from .. import common
from ..common import Stats, Violation

from cascade.low.builders import JobBuilder, TaskBuilder  # noqa: E402
from cascade.low.core import JobInstance  # noqa: E402
from earthkit.workflows.graph import Node  # noqa: E402

PROPERTY = "C19"
LEVEL = "exploration"
RULE = (
    "cases = builder programs: 1-3 callables synthesised from generated signatures (0-4 parameters, positional-or-keyword / "
    "keyword-only, with/without defaults, annotations from {absent,int,str,float,bytes,list,dict,bool,object}, bool/int/object drawn more often: the names in a strict subclass relation), 1-4 tasks each with 0-2 "
    "with_values(*args, **kwargs) calls (values of matching or non-matching type), then 1-10 with_node/with_edge/build steps whose "
    "edge endpoints are existing or dangling tasks/outputs/parameters, positional or keyword; a third of the programs are instead "
    "constructive and well formed (every node exists, every edge runs from a default output into a real parameter, no static values), "
    "so that acceptance depends on the declared types alone; after a successful build a node may be re-bound to another signature "
    "and the job built again; non-trivial = the program has >=1 edge "
    "and >=1 with_values call with positional arguments or a keyword, and build() is reached with >=2 nodes; distinct = fingerprint "
    "of the program"
)
ASSUMPTIONS = [
    "keyword names passed to with_values are restricted to real parameters (binding an unknown name is outside the statement)",
    "defaults in generated signatures have the annotated type (what callers write); mismatching values come through with_values",
    "an un-annotated ('Any') source feeding a typed parameter may be accepted or rejected (unspecified), but must not crash",
    "type compatibility is modelled with issubclass over the builtin annotation names, as the builder documents",
]
TIERS = {
    "quick": {"cases": 4000, "shards": 8},
    "thorough": {"cases": 400000, "shards": 16},
}
MANIFEST = {
    "engine": "structural-oracle",
    "technique": "property-based testing (Hypothesis) of generated builder programs against an independent validation model and deep snapshots",
    "text": "Generated-input search over signatures, bound values and edge programs; build() must return (never raise), report problems "
            "exactly when the independent model of the documented validation finds one, deliver jobs whose edges all have existing "
            "endpoints and whose static inputs are exactly the bound values, and never change earlier builders or jobs.",
    "note": "Search, not proof. Annotation vocabulary is the builtin set above; custom type names (grib.*, latitude...) are not generated.",
}

TYPES = {"int": int, "str": str, "float": float, "bytes": bytes, "list": list, "dict": dict, "bool": bool, "object": object}
# int/bool/object are drawn more often: they are the builtin names in a strict subclass relation (bool < int < object), the only pairs
# for which "compatible" depends on the direction of the edge
ANNS = [None, "int", "bool", "object", "int", "bool", "str", "float", "bytes", "list", "dict"]
PNAMES = ["a", "b", "c", "d"]

_values = {
    "int": st.integers(-3, 3),
    "str": st.sampled_from(["", "x", "ab"]),
    "float": st.sampled_from([0.0, 1.5, -2.25]),
    "bytes": st.sampled_from([b"", b"z"]),
    "list": st.lists(st.integers(0, 2), max_size=2),
    "dict": st.dictionaries(st.sampled_from(["k", "l"]), st.integers(0, 2), max_size=2),
    "bool": st.booleans(),
}
_any_value = st.one_of(*_values.values(), st.none())
_values["object"] = _any_value  # everything is an object


@st.composite
def func_specs(draw):
    n = draw(st.integers(0, 4))
    names = draw(st.permutations(PNAMES))[:n]
    n_ko = draw(st.integers(0, n))
    params = []
    seen_default = False
    for i, nm in enumerate(names):
        kind = "pk" if i < n - n_ko else "ko"
        ann = draw(st.sampled_from(ANNS))
        has_default = draw(st.booleans())
        if kind == "pk":
            if seen_default:
                has_default = True
            seen_default = seen_default or has_default
        default = None
        if has_default:
            default = draw(_values[ann]) if ann else draw(_any_value)
        params.append({"name": nm, "kind": kind, "ann": ann, "has_default": has_default, "default": default})
    return {"params": params, "ret": draw(st.sampled_from(ANNS))}


@st.composite
def programs(draw):
    funcs = draw(st.lists(func_specs(), min_size=1, max_size=3))
    ntasks = draw(st.integers(1, 4))
    tasks = []
    for _ in range(ntasks):
        fi = draw(st.integers(0, len(funcs) - 1))
        f = funcs[fi]
        calls = []
        for _c in range(draw(st.integers(0, 2))):
            args = draw(st.one_of(st.lists(_any_value, max_size=3), st.lists(_any_value, min_size=11, max_size=12)))
            kwargs = {}
            for p in f["params"]:
                if draw(st.integers(0, 2)) == 0:
                    if p["ann"] and draw(st.integers(0, 3)) > 0:
                        kwargs[p["name"]] = draw(_values[p["ann"]])
                    else:
                        kwargs[p["name"]] = draw(_any_value)
            calls.append({"args": args, "kwargs": kwargs})
        tasks.append({"func": fi, "calls": calls})
    node_names = ["n0", "n1", "n2", "n3"]
    steps = []
    if draw(st.integers(0, 2)) == 0:
        # constructive, well-formed descriptions: every node exists, every edge goes from the default output of an existing node into
        # a real parameter of an existing node, no static values -- acceptance then depends on the declared types alone
        for t in tasks:
            t["calls"] = []
        used = node_names[: draw(st.integers(2, 4))]
        of = {}
        for nm in used:
            of[nm] = draw(st.integers(0, ntasks - 1))
            steps.append(["node", nm, of[nm]])
        for _ in range(draw(st.integers(1, 4))):
            snk = draw(st.sampled_from(used))
            pnames = [p["name"] for p in funcs[tasks[of[snk]]["func"]]["params"]]
            if not pnames:
                continue
            steps.append(["edge", draw(st.sampled_from(used)), snk, draw(st.sampled_from(pnames)), draw(st.sampled_from([None, Node.DEFAULT_OUTPUT]))])
            if draw(st.integers(0, 3)) == 0:
                steps.append(["build"])
        steps.append(["build"])
        if draw(st.booleans()):
            # ... and the description lives on: a name is bound to another task (another signature) after that build, then it is
            # built again -- everything has to be validated against what the names stand for NOW
            steps.append(["node", draw(st.sampled_from(used)), draw(st.integers(0, ntasks - 1))])
            if draw(st.booleans()):
                steps.append(["build"])
                steps.append(["node", draw(st.sampled_from(used)), draw(st.integers(0, ntasks - 1))])
            steps.append(["build"])
        return {"funcs": funcs, "tasks": tasks, "steps": steps}
    for _ in range(draw(st.integers(1, 10))):
        k = draw(st.sampled_from(["node", "node", "edge", "edge", "edge", "build"]))
        if k == "node":
            steps.append(["node", draw(st.sampled_from(node_names)), draw(st.integers(0, ntasks - 1))])
        elif k == "edge":
            src = draw(st.sampled_from(node_names))
            snk = draw(st.sampled_from(node_names))
            into = draw(st.one_of(st.sampled_from(PNAMES + ["zz"]), st.integers(0, 3)))
            frum = draw(st.sampled_from([None, None, None, Node.DEFAULT_OUTPUT, "1", "nope"]))
            steps.append(["edge", src, snk, into, frum])
        else:
            steps.append(["build"])
    steps.append(["build"])
    return {"funcs": funcs, "tasks": tasks, "steps": steps}


def synth(fspec: dict, idx: int):
    parts = []
    ko_started = False
    env: dict = {}
    for i, p in enumerate(fspec["params"]):
        if p["kind"] == "ko" and not ko_started:
            parts.append("*")
            ko_started = True
        s = p["name"]
        if p["ann"]:
            s += f": {p['ann']}"
        if p["has_default"]:
            env[f"_d{i}"] = p["default"]
            s += f" = _d{i}"
        parts.append(s)
    ret = f" -> {fspec['ret']}" if fspec["ret"] else ""
    src = f"def f{idx}({', '.join(parts)}){ret}:\n    return 0\n"
    exec(src, env)
    return env[f"f{idx}"]


def _isinst(v, t: str) -> bool:
    return t == "Any" or isinstance(v, TYPES[t])


def run_case(case: dict) -> tuple[bool, list[str]]:
    classes: list[str] = []
    funcs = [synth(f, i) for i, f in enumerate(case["funcs"])]
    # ---- tasks and the model of their bound values
    tasks = []
    models = []
    for t in case["tasks"]:
        fs = case["funcs"][t["func"]]
        try:
            tb = TaskBuilder.from_callable(funcs[t["func"]])
        except Exception as e:
            raise Violation(f"from_callable raised {type(e).__name__}: {e}", "from_callable-raises")
        schema = {p["name"]: (p["ann"] or "Any") for p in fs["params"]}
        kw = {p["name"]: p["default"] for p in fs["params"] if p["has_default"]}
        ps: dict = {}
        if dict(tb.definition.input_schema) != schema:
            raise Violation(f"input_schema {tb.definition.input_schema} expected {schema}", "input_schema")
        if dict(tb.definition.output_schema) != {Node.DEFAULT_OUTPUT: fs["ret"] or "Any"}:
            raise Violation(f"output_schema {tb.definition.output_schema}", "output_schema")
        if _norm(tb.static_input_kw) != _norm(kw) or tb.static_input_ps != {}:
            raise Violation(f"defaults: static_input_kw {tb.static_input_kw} expected {kw}", "defaults")
        for c in t["calls"]:
            before = tb.model_dump()
            try:
                tb2 = tb.with_values(*c["args"], **c["kwargs"])
            except Exception as e:
                raise Violation(f"with_values(*{c['args']}, **{c['kwargs']}) raised {type(e).__name__}: {e}", "with_values-raises")
            if tb.model_dump() != before:
                raise Violation("with_values mutated the task it was called on", "with_values-mutates")
            tb = tb2
            kw = {**kw, **c["kwargs"]}
            ps = {**ps, **{str(i): v for i, v in enumerate(c["args"])}}
            if c["args"]:
                classes.append("positional_values")
            if _norm(tb.static_input_kw) != _norm(kw):
                raise Violation(f"static_input_kw {tb.static_input_kw} expected {kw}", "bound-kw")
            if _norm(tb.static_input_ps) != _norm(ps):
                raise Violation(f"with_values(*{c['args']}): static_input_ps {tb.static_input_ps} expected {ps}", "bound-ps")
        tasks.append(tb)
        models.append({"schema": schema, "kw": kw, "ps": ps, "ret": fs["ret"] or "Any"})

    # ---- builder program
    jb = JobBuilder()
    m_nodes: dict = {}
    m_edges: list = []
    history: list = []  # (builder value, model nodes, model edges, dump of its build result or problems flag)
    built_jobs: list = []  # (JobInstance, dump)
    builds = 0
    for step in case["steps"]:
        if step[0] == "node":
            jb_new = jb.with_node(step[1], tasks[step[2]])
            m_nodes = {**m_nodes, step[1]: step[2]}
        elif step[0] == "edge":
            _k, src, snk, into, frum = step
            jb_new = jb.with_edge(src, snk, into) if frum is None else jb.with_edge(src, snk, into, frum)
            m_edges = m_edges + [(src, snk, into, frum if frum is not None else Node.DEFAULT_OUTPUT)]
        else:
            jb_new = jb
            builds += 1
            verdict = _build_and_check(jb, m_nodes, m_edges, models, classes)
            if isinstance(verdict, JobInstance):
                built_jobs.append((verdict, verdict.model_dump()))
        if jb_new is jb and step[0] != "build":
            raise Violation(f"{step[0]} returned the same builder object", "builder-mutates")
        jb = jb_new
        history.append((jb, dict(m_nodes), list(m_edges)))
        # persistence: earlier jobs unchanged, earlier builder values still describe what they described
        for job, dump in built_jobs:
            if job.model_dump() != dump:
                raise Violation("a later builder operation changed a previously built JobInstance", "job-mutated")
        for (old_jb, old_nodes, old_edges) in history[:-1]:
            if set(old_jb.nodes.keys()) != set(old_nodes.keys()) or len(old_jb.edges) != len(old_edges):
                raise Violation("a later builder operation changed an earlier builder value", "builder-mutated")
    # rebuild the earlier builder values once more at the end
    for (old_jb, old_nodes, old_edges) in history[:-1][-3:]:
        _build_and_check(old_jb, old_nodes, old_edges, models, [])

    n_edges = len(m_edges)
    nontrivial = n_edges >= 1 and len(m_nodes) >= 2 and any(c["args"] or c["kwargs"] for t in case["tasks"] for c in t["calls"])
    if n_edges:
        classes.append("has_edges")
    return nontrivial, sorted(set(classes))


def _norm(d: dict):
    return common.canonical(d)


def _model_problems(m_nodes, m_edges, models) -> tuple[bool, bool]:
    """(some problem certainly exists, some unspecified 'Any'-into-typed edge exists)"""
    problem = False
    unspecified = False
    for _name, ti in m_nodes.items():
        m = models[ti]
        for k, v in m["kw"].items():
            if not _isinst(v, m["schema"][k]):
                problem = True
    for (src, snk, into, frum) in m_edges:
        out_t = None
        in_t = None
        if src not in m_nodes:
            problem = True
        elif frum != Node.DEFAULT_OUTPUT:
            problem = True  # from_callable tasks have exactly the default output
        else:
            out_t = models[m_nodes[src]]["ret"]
        if snk not in m_nodes:
            problem = True
            continue
        if isinstance(into, int):
            continue
        in_t = models[m_nodes[snk]]["schema"].get(into)
        if in_t is None:
            problem = True
            continue
        if out_t is None:
            continue
        if in_t == "Any" or out_t == in_t:
            continue
        if out_t == "Any":
            unspecified = True
            continue
        if not issubclass(TYPES[out_t], TYPES[in_t]):
            problem = True
    return problem, unspecified


def _build_and_check(jb, m_nodes, m_edges, models, classes):
    try:
        res = jb.build()
    except Exception as e:
        raise Violation(f"build() raised {type(e).__name__}: {e} (nodes={m_nodes}, edges={m_edges})", "build-raises")
    problem, unspecified = _model_problems(m_nodes, m_edges, models)
    rejected = bool(res.e)
    if rejected:
        if not isinstance(res.e, list) or not all(isinstance(x, str) for x in res.e):
            raise Violation(f"problems are not a list of strings: {res.e!r}", "problems-type")
    if problem and not rejected:
        raise Violation(f"builder accepted a description with a problem (nodes={m_nodes}, edges={m_edges})", "accepts-bad")
    if rejected and not problem and not unspecified:
        raise Violation(f"builder rejected a correct description: {res.e} (nodes={m_nodes}, edges={m_edges})", "rejects-good")
    classes.append("rejected" if rejected else "accepted")
    for (src, snk, into, frum) in m_edges:
        if src in m_nodes and snk in m_nodes and not isinstance(into, int) and frum == Node.DEFAULT_OUTPUT:
            o_t, i_t = models[m_nodes[src]]["ret"], models[m_nodes[snk]]["schema"].get(into)
            if o_t in TYPES and i_t in TYPES and o_t != i_t:
                if issubclass(TYPES[o_t], TYPES[i_t]):
                    classes.append("typed_edge_subclass_into_superclass")
                elif issubclass(TYPES[i_t], TYPES[o_t]):
                    classes.append("typed_edge_superclass_into_subclass")
    if unspecified:
        classes.append("any_into_typed")
    if rejected:
        return None
    job = res.t
    if not isinstance(job, JobInstance):
        raise Violation(f"accepted but no JobInstance: {job!r}", "no-job")
    # well-formedness of the accepted job, from the job alone
    for e in job.edges:
        if e.source.task not in job.tasks:
            raise Violation(f"accepted job has an edge from missing task {e.source}", "wf-source-task")
        if e.source.output not in job.tasks[e.source.task].definition.output_schema:
            raise Violation(f"accepted job has an edge from missing output {e.source}", "wf-source-output")
        if e.sink_task not in job.tasks:
            raise Violation(f"accepted job has an edge to missing task {e.sink_task}", "wf-sink-task")
        if e.sink_input_kw is not None and e.sink_input_kw not in job.tasks[e.sink_task].definition.input_schema:
            raise Violation(f"accepted job has an edge to missing parameter {e.sink_input_kw}", "wf-sink-param")
        if (e.sink_input_kw is None) == (e.sink_input_ps is None):
            raise Violation(f"edge is neither positional nor keyword: {e}", "wf-edge-kind")
    # the job is what was described
    if set(job.tasks.keys()) != set(m_nodes.keys()):
        raise Violation(f"job tasks {sorted(job.tasks)} expected {sorted(m_nodes)}", "job-tasks")
    def key(src, snk, into, out):
        return (src, snk, type(into).__name__, str(into), out)

    got_edges = sorted(key(e.source.task, e.sink_task, e.sink_input_kw if e.sink_input_kw is not None else e.sink_input_ps,
                           e.source.output) for e in job.edges)
    exp_edges = sorted(key(*me) for me in m_edges)
    if got_edges != exp_edges:
        raise Violation(f"job edges {got_edges} expected {exp_edges}", "job-edges")
    for name, ti in m_nodes.items():
        t = job.tasks[name]
        if _norm(t.static_input_kw) != _norm(models[ti]["kw"]) or _norm(t.static_input_ps) != _norm(models[ti]["ps"]):
            raise Violation(f"task {name}: statics kw={t.static_input_kw} ps={t.static_input_ps} expected kw={models[ti]['kw']} "
                            f"ps={models[ti]['ps']}", "job-values")
    return job


def shard(seed: int, cases: int, tier: str) -> Stats:
    st_ = Stats()
    common.hyp_run(programs(), run_case, st_, seed, cases)
    return st_


def replay(case: dict) -> None:
    run_case(case)
