"""C01 — a distributed run returns exactly the values sequential evaluation would."""

from __future__ import annotations

from .. import simcheck

PROPERTY = "C01"
LEVEL = "exploration"
FAMILY = "C01"
RULE = (
    "cases = (job DAG spec from harness.genjob: 0-10 tasks quick / 0-14 thorough, any shape, multi-output tasks, positional and "
    "keyword edges (with static defaults), static arguments, dotted / punctuated names in a sixth of the jobs, task values of ten "
    "Python types (str, bytes, bytearray, empty bytes, None, tuple, frozenset, large bytes, NumPy array and scalar; compared "
    "type-strictly), twin tasks (one TaskInstance under two names), callables shared by tasks with other declarations, any subset of "
    "datasets requested; optionally the same Preschedule re-used from an earlier run, or a prelude job with the same task names run "
    "first in the same process; in half of the cases workers are pre-empted after each publication of a running task; cluster of 1-4 hosts x 1-3 workers (thorough 6 x 4) with a "
    "generated GPU subset that keeps the job feasible; schedule = inside Bridge.recv_events a generated choice among all enabled "
    "steps: deliver the next message to a worker, let an executor forward one message, let a data server execute one command / store "
    "one payload / purge, let one event reach the controller, or return the arrived events). Oracle: every requested output equals "
    "the sequential reference evaluation. non-trivial = >=2 tasks, >=1 edge, a requested output that is not a source, and an "
    "inter-host transfer happened or >=2 workers ran tasks or a multi-output task was consumed; distinct = fingerprint of (case, "
    "delivered-event trace). Additionally 16 (quick) / 48 (thorough) fault-free runs of the REAL cluster (harness.realcluster: real "
    "processes, zmq over loopback, real Bridge, executor loop, data server and shm server) with the same value oracle"
)
ASSUMPTIONS = [
    "transport, the executor's forwarding loop, the data server and shared memory are simulated (FIFO per sender/receiver pair); the "
    "controller, scheduler, worker loop, runner, Memory and serde are the real code",
    "task callables are recording functions (hash of name, positional args, sorted kwargs), cloud-pickled by value",
    "uv package environments are out of scope (empty environment lists)",
]
TIERS = {
    "quick": {"cases": 1600, "shards": 16},
    "thorough": {"cases": 160000, "shards": 16},
}
MANIFEST = {
    "engine": "clustersim",
    "technique": "model-based simulation testing: Hypothesis-generated jobs x clusters x schedules through the real controller and worker loop, differential against a sequential reference evaluator",
    "text": "Generated jobs, cluster shapes and event interleavings are run through the real controller, scheduler, worker loop and "
            "runner behind a simulated bridge; every requested output must be delivered and equal the value an independent sequential "
            "evaluator computes. Independence from cluster shape, placement and event order follows because the reference ignores them.",
    "note": "Search, not proof. Transport / executor forwarding / data server / shm are simulated; real ones are exercised by C05-C09.",
}


def _nt(c):
    return c["tasks"] >= 2 and c["edges"] >= 1 and c["ext_nonsource"] and (c["transfers"] > 0 or c["workers_ran"] >= 2 or c["multi_consumed"])


def _real_body(stats):
    """Fault-free runs of the REAL cluster (processes, zmq over loopback, shm server, data server) with the same
    value oracle -- sampled evidence that the simulated seams behave like the real ones."""
    import os
    import shutil
    import tempfile

    from .. import realcluster
    from ..common import HarnessError, Violation
    from ..genjob import build_job, same_value
    from ..refeval import evaluate

    n = [0]

    def body(plan):
        n[0] += 1
        shard_i = int(os.environ.get("VERIF_SHARD", "0"))
        tmp = tempfile.mkdtemp(prefix="verif-c01-")
        p = dict(plan)
        # a port block of its own (C05 uses 10000-30700), so that the two checks can run at the same time
        p.update({"port": 2000 + shard_i * 450 + (n[0] % 12) * 36, "prefix": f"r{os.getpid() % 10000}x{n[0] % 1000}",
                  "marker": os.path.join(tmp, "m"), "grace_s": 15, "fault": {"where": "none"}})
        try:
            out = realcluster.run_plan(p, 60)
            if out["verdict"] in ("hang", "raised"):
                # confirm before believing a time-out (as C05 does) -- or a run that raised: on a starved machine the library's own
                # transport time-outs (20 retries x 0.8 s without an ack, heartbeats) expire without any fault of its logic
                n[0] += 1
                p2 = dict(p)
                # the confirming run uses a port block far from the first one: a foreign process listening on one of the first
                # block's ports (another test suite on this machine) makes a cluster hang without any fault of the library
                p2.update({"port": 31000 + shard_i * 100, "prefix": f"r{os.getpid() % 10000}y{n[0] % 1000}"})
                out = realcluster.run_plan(p2, 120)
        finally:
            shutil.rmtree(tmp, ignore_errors=True)
        if out["verdict"] == "harness-error":
            raise HarnessError(str(out.get("exc")))
        if out["verdict"] != "returned":
            raise Violation(f"real cluster {plan['hosts']}x{plan['workers']}: fault-free run ended as {out['verdict']}: {out.get('exc')}", "real-run-failed")
        job = build_job(plan["job"])
        ref = evaluate(job)
        for ds in job.ext_outputs:
            got = out.get("outputs", {}).get(repr(ds), "<missing>")
            if not same_value(got, ref[(ds.task, ds.output)]):
                raise Violation(f"real cluster: {ds} = {got!r}, sequential evaluation gives {ref[(ds.task, ds.output)]!r}", "real-output-wrong")
        return len(plan["job"]["tasks"]) >= 2, ["real_cluster_run"]

    return body


def shard(seed, cases, tier):
    from hypothesis import strategies as st

    from .. import common
    from ..common import Stats
    from ..genjob import job_specs

    # the real-cluster samples run FIRST: they fork, and forking is only safe while this shard process has no other threads
    # (the simulator's lock-step worker coroutines are threads; a fork next to them can leave the child with a lock nobody releases,
    # which looked like a hanging cluster when the samples ran after the simulation)
    real = Stats()
    plans = st.builds(lambda j, h, w: {"job": j, "hosts": h, "workers": w}, job_specs(max_tasks=7, min_tasks=1, gpu=False, ext="any"),
                      st.integers(1, 2), st.integers(1, 3))
    # one real-cluster sample per shard in the quick tier (16 runs in parallel), three in the thorough tier (48)
    common.hyp_run(plans, _real_body(real), real, seed + 13, 3 if tier == "thorough" else 1, shrink=False, skip_first=True)
    if real.violations:
        return real
    st_ = simcheck.shard(FAMILY, _nt, seed, cases, tier)
    st_.merge(real)
    return st_


def replay(case):
    if "hosts" in case and "workers" in case and "cluster" not in case:
        _real_body(None)(case)
        return
    simcheck.replay_case(FAMILY, case)
