"""C01 — a distributed run returns exactly the values sequential evaluation would."""

from __future__ import annotations

from .. import simcheck

PROPERTY = "C01"
LEVEL = "exploration"
FAMILY = "C01"
RULE = (
    "cases = (job DAG spec from harness.genjob: 0-10 tasks quick / 0-14 thorough, any shape, multi-output tasks, positional and "
    "keyword edges, static arguments, any subset of datasets requested; cluster of 1-4 hosts x 1-3 workers (thorough 6 x 4) with a "
    "generated GPU subset that keeps the job feasible; schedule = inside Bridge.recv_events a generated choice among all enabled "
    "steps: deliver the next message to a worker, let an executor forward one message, let a data server execute one command / store "
    "one payload / purge, let one event reach the controller, or return the arrived events). Oracle: every requested output equals "
    "the sequential reference evaluation. non-trivial = >=2 tasks, >=1 edge, a requested output that is not a source, and an "
    "inter-host transfer happened or >=2 workers ran tasks or a multi-output task was consumed; distinct = fingerprint of (case, "
    "delivered-event trace)"
)
ASSUMPTIONS = [
    "transport, the executor's forwarding loop, the data server and shared memory are simulated (FIFO per sender/receiver pair); the "
    "controller, scheduler, worker loop, runner, Memory and serde are the real code",
    "task callables are recording functions (hash of name, positional args, sorted kwargs), cloud-pickled by value",
    "uv package environments are out of scope (empty environment lists)",
]
TIERS = {
    "quick": {"cases": 1600, "shards": 16},
    "thorough": {"cases": 160000, "shards": 16},
}
MANIFEST = {
    "engine": "clustersim",
    "technique": "model-based simulation testing: Hypothesis-generated jobs x clusters x schedules through the real controller and worker loop, differential against a sequential reference evaluator",
    "text": "Generated jobs, cluster shapes and event interleavings are run through the real controller, scheduler, worker loop and "
            "runner behind a simulated bridge; every requested output must be delivered and equal the value an independent sequential "
            "evaluator computes. Independence from cluster shape, placement and event order follows because the reference ignores them.",
    "note": "Search, not proof. Transport / executor forwarding / data server / shm are simulated; real ones are exercised by C05-C09.",
}


def _nt(c):
    return c["tasks"] >= 2 and c["edges"] >= 1 and c["ext_nonsource"] and (c["transfers"] > 0 or c["workers_ran"] >= 2 or c["multi_consumed"])


def shard(seed, cases, tier):
    return simcheck.shard(FAMILY, _nt, seed, cases, tier)


def replay(case):
    simcheck.replay_case(FAMILY, case)
