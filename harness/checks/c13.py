"""C13 — fluent programs denote the arrays NumPy would compute, batched or not."""

from __future__ import annotations

import numpy as np

from .. import common
from ..common import Stats, Violation
from ..fluentmodel import Model, apply_op, build_source, evaluate, programs

PROPERTY = "C13"
LEVEL = "exploration"
RULE = (
    "cases = fluent programs: a source node array of 1-3 dims (sizes 1-4, coordinates that are not 0..n-1), integer-valued float64 "
    "internal arrays of 0-2 dims (ndarray or xr.DataArray), then 1-4 operations drawn constructively from those applicable to the "
    "current dims: map, reduce with a user function, sum/mean/std/min/max/prod (every dim of size >= 2, batch_size 0..size+2, "
    "keep_dim both), stack/concatenate/flatten (axis), expand (every insertion axis, dim_size or coordinate list), select/isel, "
    "broadcast against an action with an extra dim before or after, join, arithmetic with scalars and with other actions (equal "
    "and different coordinate values, an operand holding its dimensions in another order), map with per-node payload arrays, "
    "calls relying on the default dimension, negative internal_dim, transform, generators with yields. After every operation -- and "
    "again for every intermediate action once the whole program has been built (a later call must not change an earlier action) -- the graph is evaluated by a plain "
    "substitution interpreter and compared at every coordinate with a NumPy model of the stacked source array, together with dims "
    "and coordinate values. non-trivial = >=2 operations containing a reduction/concatenation with 1 < batch_size < size, or a "
    "broadcast/expand/transform whose new dimension is not last; distinct = fingerprint of the program"
)
ASSUMPTIONS = [
    "reduced dimensions have size >= 2 (a single-argument backend call means 'reduce the whole array'); backend_kwargs are not generated",
    "values are small integers stored as float64 so batching cannot hide behind a tolerance; comparison with rtol 1e-9 and atol 1e-7; after a batched std -- documented as sqrt(E[x^2]-E[x]^2), whose rounding error is about sqrt(eps*n)*max|x| -- atol is 1e-6*max(1,max|x|), growing 30x per later step up to 1e-3",
    "the dimension order after broadcast is xarray's (only the set of dims is compared there); scalar (non-dimension) coordinates are ignored",
    "graphs are evaluated by a reference interpreter (substitution), not lowered or scheduled: that is C10/C01",
    "programs over xarray internals end as soon as a value is NaN: xarray reductions skip NaN by default (known finding F32 of C15)",
]
TIERS = {
    "quick": {"cases": 1600, "shards": 16},
    "thorough": {"cases": 160000, "shards": 16},
}
MANIFEST = {
    "engine": "structural-oracle",
    "technique": "model-based property testing (Hypothesis): generated fluent programs vs. a NumPy model, through an independent graph interpreter; metamorphic over batch sizes",
    "text": "Generated fluent programs are applied step by step to the real Action and to a NumPy model of the stacked source array; "
            "after each step every coordinate's evaluated value, the dims and the coordinate values must agree. Batch sizes from 0 to "
            "beyond the dimension size and keep_dim are part of the generated operations, so batching invariance is checked against "
            "the un-batched NumPy result.",
    "note": "Search, not proof. Depth <= 4, node arrays <= 4 per dim.",
}

_key = [0]


def _coord_values(nodes, d):
    if d in nodes.coords:
        return [v.item() if hasattr(v, "item") else v for v in nodes.coords[d].values]
    return list(range(nodes.sizes[d]))


def compare(action, m: Model, step: int, op, order_strict: bool) -> Model:
    nodes = action.nodes
    dims = [str(d) for d in nodes.dims]
    if sorted(dims) != sorted(m.dims):
        raise Violation(f"after step {step} {op}: dims {dims} expected {m.dims}", "dims")
    if dims != m.dims:
        if order_strict:
            raise Violation(f"after step {step} {op}: dims order {dims} expected {m.dims}", "dims-order")
        perm = [m.dims.index(d) for d in dims]
        extra = list(range(len(m.dims), m.M.ndim))
        m = Model(np.transpose(m.M, perm + extra), dims, m.coords)
    cvals = {}
    for d in dims:
        cv = _coord_values(nodes, d)
        if len(cv) == 1 and len(m.coords[d]) == 1 and isinstance(m.coords[d][0], str) and m.coords[d][0].startswith("\x00kept"):
            m.coords[d] = list(cv)  # the label of a dimension kept by keep_dim is not documented: adopt the actual one
        if [str(x) for x in cv] != [str(x) for x in m.coords[d]] or len(cv) != len(m.coords[d]):
            raise Violation(f"after step {step} {op}: coordinates of {d} are {cv} expected {m.coords[d]}", "coords")
        cvals[d] = m.coords[d]
    ev = evaluate(action)["element"]
    arr = nodes.values
    for idx in np.ndindex(*arr.shape) if arr.shape else [()]:
        el = arr[idx] if arr.shape else arr.item()
        try:
            got = ev(el)
        except Exception as e:
            raise Violation(f"after step {step} {op}: evaluating the graph at index {idx} raised {type(e).__name__}: {e}", "eval-raises")
        got = np.asarray(getattr(got, "values", got), dtype="float64")
        exp = np.asarray(m.M[idx], dtype="float64")
        if got.shape != exp.shape:
            raise Violation(f"after step {step} {op}: at {dict(zip(dims, idx))} value shape {got.shape} expected {exp.shape}", "value-shape")
        if not np.allclose(got, exp, rtol=1e-9, atol=max(1e-7, _TOL[0]), equal_nan=True):
            raise Violation(f"after step {step} {op}: at index {dict(zip(dims, idx))} value {got.tolist()} expected {exp.tolist()}", "value")
    return m


# absolute tolerance of the running program. The batched standard deviation is documented as sqrt(E[x^2] - E[x]^2): its rounding error
# is about sqrt(eps * n) * max|x| (1.2e-7 for four equal values of 8.16), not a few ulp; once such a step has run, the tolerance is
# 1e-6 * max(1, max|x|) of its input and grows by the largest factor a later step can apply (values and scalars are <= ~30 in
# magnitude), capped at 1e-3 -- wrong wiring, wrong batching or a wrong axis change values by >= 0.5 in these programs
_TOL = [0.0]


def run_case(prog) -> tuple[bool, list[str]]:
    _key[0] += 1
    _TOL[0] = 0.0
    a, m = build_source(prog["src"], _key[0])
    classes: set[str] = set()
    m = compare(a, m, 0, "source", True)
    nt_a = False
    nt_b = False
    earlier: list = []
    for i, op in enumerate(prog["ops"], 1):
        try:
            scale_in = float(np.nanmax(np.abs(m.M))) if m.M.size and np.isfinite(m.M).any() else 1.0
            a, m, tags = apply_op(a, m, op, prog["src"]["xr"])
        except Violation:
            raise
        except Exception as e:
            raise Violation(f"step {i} {op} raised {type(e).__name__}: {e}", "op-raises")
        classes.update(tags)
        if _TOL[0] > 0.0:
            _TOL[0] = min(1e-3, _TOL[0] * 30.0)
        if op[0] == "reduce" and op[1] == "std" and "batched" in tags:
            _TOL[0] = max(_TOL[0], 1e-6 * max(1.0, scale_in))
            classes.add("tolerance_widened_after_batched_std")
        if prog["src"]["xr"] and not np.isfinite(m.M).all():
            # see below: non-finite values (inf * 0 inside a reduction becomes NaN) leave the domain in which NumPy is the reference
            classes.add("nan_in_xarray_program_stopped")
            break
        m = compare(a, m, i, op, "order_unspecified" not in tags)
        earlier.append((a, m.copy(), i, op, "order_unspecified" not in tags))
        if prog["src"]["xr"] and np.isnan(m.M).any():
            # xarray reductions skip NaN by default (recorded as known finding F32 under C15): once a NaN exists the NumPy model is
            # no longer the reference for xarray internals -- the program ends here
            classes.add("nan_in_xarray_program_stopped")
            break
        if "batched" in tags:
            nt_a = True
        if "new_dim_not_last" in tags:
            nt_b = True
    # what an action denotes does not depend on what was built from it, or next to it, afterwards: every intermediate action of the
    # program is evaluated once more now that the whole program has been built
    if len(earlier) >= 2:
        for (a_k, m_k, i_k, op_k, strict_k) in earlier[:-1]:
            compare(a_k, m_k, f"{i_k} (re-evaluated after the later steps)", op_k, strict_k)
        classes.add("earlier_actions_re_evaluated")
    if prog["src"]["xr"]:
        classes.add("xr_internal")
    nt = len(prog["ops"]) >= 2 and (nt_a or nt_b)
    return nt, sorted(classes)


def shard(seed: int, cases_n: int, tier: str) -> Stats:
    st_ = Stats()
    common.hyp_run(programs(), run_case, st_, seed, cases_n)
    return st_


def replay(case) -> None:
    run_case(case)
