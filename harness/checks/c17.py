"""C17 — every wire and file encoding round-trips over its whole value domain."""

from __future__ import annotations

import dataclasses
import inspect

import orjson
from hypothesis import strategies as st

from .. import common, fakezmq
from ..common import Stats, Violation
from ..genjob import build_job, job_specs

import cascade.controller.report as report  # noqa: E402
import cascade.executor.comms as comms  # noqa: E402
import cascade.executor.msg as msg  # noqa: E402
import cascade.executor.serde as serde  # noqa: E402
import cascade.gateway.api as gapi  # noqa: E402
import cascade.gateway.client as gclient  # noqa: E402
import cascade.shm.api as shmapi  # noqa: E402
from cascade.low.core import DatasetId, JobInstance, WorkerId  # noqa: E402

PROPERTY = "C17"
LEVEL = "exploration"
RULE = (
    "cases = one message of a generated family: (shm) every Comm class found in cascade.shm.api, sizes over 0..2^64-1 with "
    "boundary emphasis at 2^31, 2^32, 2^32+-1, 2^40, 2^63, ASCII strings incl. empty and long ones (lengths around 256, 512, 1024, 65536), plus out-of-domain values (negative, >=2^64, "
    "non-ASCII) that must be rejected at encode time; (msg) every class of cascade.executor.msg through ser_message/des_message "
    "and through ReliableSender.send / send_data -> Listener over the in-memory zmq; (report) ControllerReport; (gateway) every "
    "request through request_response -> parse_request and every response through serialize_response -> the client's parser; "
    "(job) JobInstance from harness.genjob (dotted names, shared callables, twin tasks) through orjson.dumps(job.dict()) -> "
    "JobInstance(**orjson.loads()), and the same bytes written to an instance file and read back by the real "
    "cascade.benchmarks.__main__.get_job (the route the gateway uses to hand a job to the process that runs it). "
    "non-trivial = a size >= 2^32, or a message with >= 1 non-empty nested field (list/set/dict/bytes), or a job with >= 1 "
    "keyword edge and >= 1 multi-output task; distinct = fingerprint of the message"
)
ASSUMPTIONS = [
    "equality of field-less command classes is class identity (they define no __eq__)",
    "pickle and orjson are trusted for the values they carry; the framing/dispatch code around them is under test",
    "key strings are ASCII (the documented domain); sizes are unsigned integers below 2^64 (the width of AllocateRequest.l)",
    "JobInstance statics are restricted to values JSON represents faithfully, except for the counted class that puts one non-finite "
    "float (nan, inf, -inf; bare or inside a list) into a static input: there the property allows the encoder to refuse or the value to "
    "come back, and known finding F41 (it comes back as None, everything else intact) is matched by that signature only",
]
TIERS = {
    "quick": {"cases": 16000, "shards": 8},
    "thorough": {"cases": 600000, "shards": 16},
}
MANIFEST = {
    "engine": "structural-oracle",
    "technique": "property-based round-trip testing (Hypothesis) of every codec, classes enumerated from the modules by reflection",
    "text": "Generated-input search: decode(encode(m)) == m for every message class enumerated from cascade.shm.api, "
            "cascade.executor.msg, cascade.controller.report, cascade.gateway.api and for JobInstance JSON files, with boundary-biased "
            "sizes; out-of-domain values must raise at encode time (a successful encode that decodes differently is the violation).",
    "note": "Search, not proof. Real sockets are replaced by an in-memory transport; pickle/orjson are trusted.",
}

BOUNDS = [0, 1, 255, 2**31 - 1, 2**31, 2**32 - 1, 2**32, 2**32 + 1, 2**40, 2**63 - 1, 2**63, 2**64 - 1]
sizes = st.one_of(st.sampled_from(BOUNDS), st.integers(0, 2**64 - 1), st.integers(0, 2**20))
bad_sizes = st.one_of(st.integers(-(2**70), -1), st.integers(2**64, 2**80))
_short_ascii = st.text(alphabet=st.characters(min_codepoint=0, max_codepoint=127), max_size=24)
# strings of every length class: the protocol admits any ASCII string (4-byte length prefix), e.g. a long repr(exception) as error
_long_ascii = st.builds(lambda n, c: (c * n)[:n], st.sampled_from([25, 100, 255, 256, 257, 511, 512, 513, 1000, 1023, 1024, 1025, 4096, 65535, 65536, 70000]),
                        st.sampled_from(["e", "ab", "xyz~", "\x00\x7f"]))
ascii_text = st.one_of(_short_ascii, _short_ascii, _short_ascii, _long_ascii)
nonascii_text = st.builds(lambda a, c, b: a + c + b, ascii_text, st.characters(min_codepoint=128, max_codepoint=0x2FFF,
                                                                               blacklist_categories=("Cs",)), ascii_text)
names = st.text(alphabet="abct0.-_:/ é", max_size=8)


def shm_classes() -> list[type]:
    rv = []
    for _n, c in inspect.getmembers(shmapi, inspect.isclass):
        if c.__module__ == shmapi.__name__ and hasattr(c, "ser") and hasattr(c, "deser") and c not in (shmapi.Comm, shmapi.EmptyCommand):
            rv.append(c)
    return sorted(rv, key=lambda c: c.__name__)


def _field_strategy(cls: type, fname: str, ftype, bad: str | None):
    if ftype in (int, "int"):
        return bad_sizes if bad == "int" else sizes
    if ftype in (str, "str"):
        return nonascii_text if bad == "str" else ascii_text
    if inspect.isclass(ftype) and issubclass(ftype, shmapi.Enum):
        return st.sampled_from(list(ftype))
    raise common.HarnessError(f"no strategy for {cls.__name__}.{fname}: {ftype!r}")


@st.composite
def shm_cases(draw):
    classes = shm_classes()
    cls = draw(st.sampled_from(classes))
    fields = dataclasses.fields(cls) if dataclasses.is_dataclass(cls) else []
    bad_field = None
    if fields and draw(st.integers(0, 4)) == 0:
        cand = [f for f in fields if f.type in (int, str, "int", "str")]
        if cand:
            bad_field = draw(st.sampled_from(cand)).name
    vals = {}
    for f in fields:
        bad = None
        if f.name == bad_field:
            bad = "int" if f.type in (int, "int") else "str"
        v = draw(_field_strategy(cls, f.name, f.type, bad))
        vals[f.name] = v.value if isinstance(v, shmapi.Enum) else v
    return {"family": "shm", "cls": cls.__name__, "vals": vals, "bad": bad_field}


dsid = st.builds(lambda t, o: [t, o], names, names)
wid = st.builds(lambda h, w: [h, w], names, names)


@st.composite
def msg_cases(draw):
    kind = draw(st.sampled_from([
        "Syn", "Ack", "TaskSequence", "TaskFailure", "DatasetPublished", "DatasetPurge", "DatasetTransmitCommand",
        "DatasetTransmitPayload", "DatasetTransmitFailure", "ExecutorFailure", "ExecutorExit", "ExecutorRegistration",
        "ExecutorShutdown", "WorkerReady", "WorkerShutdown"]))
    i = st.integers(0, 2**40)
    v: dict = {}
    if kind == "Syn":
        v = {"idx": draw(i), "addr": draw(names)}
    elif kind == "Ack":
        v = {"idx": draw(i)}
    elif kind == "TaskSequence":
        v = {"worker": draw(wid), "tasks": draw(st.lists(names, max_size=4)), "publish": draw(st.lists(dsid, max_size=4))}
    elif kind == "TaskFailure":
        v = {"worker": draw(wid), "task": draw(st.one_of(st.none(), names)), "detail": draw(names)}
    elif kind == "DatasetPublished":
        v = {"origin": draw(st.one_of(wid, names)), "ds": draw(dsid), "transmit_idx": draw(st.one_of(st.none(), i))}
    elif kind == "DatasetPurge":
        v = {"ds": draw(dsid)}
    elif kind == "DatasetTransmitCommand":
        v = {"source": draw(names), "target": draw(names), "daddress": draw(names), "ds": draw(dsid), "idx": draw(i)}
    elif kind == "DatasetTransmitPayload":
        v = {"confirm_address": draw(names), "confirm_idx": draw(i), "ds": draw(dsid), "deser_fun": draw(names),
             "value": draw(st.binary(max_size=4096))}
    elif kind in ("DatasetTransmitFailure", "ExecutorFailure"):
        v = {"host": draw(names), "detail": draw(names)}
    elif kind == "ExecutorExit":
        v = {"host": draw(names)}
    elif kind == "ExecutorRegistration":
        v = {"host": draw(names), "maddress": draw(names), "daddress": draw(names),
             "workers": draw(st.lists(st.builds(lambda w, c, g, m: [w, c, g, m], wid, st.integers(0, 64), st.integers(0, 8),
                                                st.integers(0, 2**20)), max_size=3))}
    elif kind == "WorkerReady":
        v = {"worker": draw(wid)}
    # Syn is the framing marker itself: no caller hands it to the acknowledged-send layer as a payload
    route = "pickle" if kind == "Syn" else draw(st.sampled_from(["pickle", "wire"]))
    return {"family": "msg", "cls": kind, "vals": v, "route": route}


def _mk_msg(cls: str, v: dict):
    D = lambda d: DatasetId(d[0], d[1])  # noqa: E731
    W = lambda w: WorkerId(w[0], w[1])  # noqa: E731
    if cls == "TaskSequence":
        return msg.TaskSequence(worker=W(v["worker"]), tasks=list(v["tasks"]), publish={D(d) for d in v["publish"]})
    if cls == "TaskFailure":
        return msg.TaskFailure(worker=W(v["worker"]), task=v["task"], detail=v["detail"])
    if cls == "DatasetPublished":
        o = v["origin"]
        return msg.DatasetPublished(origin=W(o) if isinstance(o, list) else o, ds=D(v["ds"]), transmit_idx=v["transmit_idx"])
    if cls == "DatasetPurge":
        return msg.DatasetPurge(ds=D(v["ds"]))
    if cls == "DatasetTransmitCommand":
        return msg.DatasetTransmitCommand(source=v["source"], target=v["target"], daddress=v["daddress"], ds=D(v["ds"]), idx=v["idx"])
    if cls == "DatasetTransmitPayload":
        return msg.DatasetTransmitPayload(
            header=msg.DatasetTransmitPayloadHeader(confirm_address=v["confirm_address"], confirm_idx=v["confirm_idx"],
                                                    ds=D(v["ds"]), deser_fun=v["deser_fun"]), value=v["value"])
    if cls == "ExecutorRegistration":
        return msg.ExecutorRegistration(host=v["host"], maddress=v["maddress"], daddress=v["daddress"],
                                        workers=[msg.Worker(worker_id=W(w[0]), cpu=w[1], gpu=w[2], memory_mb=w[3]) for w in v["workers"]])
    if cls == "WorkerReady":
        return msg.WorkerReady(worker=W(v["worker"]))
    return getattr(msg, cls)(**v)


@st.composite
def report_cases(draw):
    return {"family": "report", "vals": {
        "job_id": draw(names), "current_status": draw(st.one_of(st.none(), names)), "timestamp": draw(st.integers(-1, 2**63)),
        "results": draw(st.lists(st.builds(lambda d, b: [d, b], dsid, st.binary(max_size=64)), max_size=3))}}


json_text = st.text(alphabet="abc0-_é \"\\", max_size=6)


@st.composite
def gateway_cases(draw):
    req = draw(st.sampled_from(["SubmitJob", "JobProgress", "ResultRetrieval", "Shutdown"]))
    opt_err = st.one_of(st.none(), json_text)
    if req == "SubmitJob":
        with_job = draw(st.booleans())
        rq = {"benchmark_name": None if with_job else draw(st.one_of(st.none(), json_text)),
              "envvars": draw(st.dictionaries(json_text, json_text, max_size=2)),
              "job": draw(job_specs(max_tasks=4, with_serdes=True)) if with_job else None,
              "workers_per_host": draw(st.integers(0, 64)), "hosts": draw(st.integers(0, 64)), "use_slurm": draw(st.booleans())}
        rs = {"job_id": draw(st.one_of(st.none(), json_text)), "error": draw(opt_err)}
    elif req == "JobProgress":
        rq = {"job_ids": draw(st.lists(json_text, max_size=3))}
        rs = {"progresses": draw(st.dictionaries(json_text, json_text, max_size=3)), "error": draw(opt_err)}
    elif req == "ResultRetrieval":
        rq = {"job_id": draw(json_text), "dataset_id": draw(st.builds(lambda a, b: [a, b], json_text, json_text))}
        rs = {"result": draw(st.one_of(st.none(), json_text)), "error": draw(opt_err)}
    else:
        rq = {}
        rs = {"error": draw(opt_err)}
    return {"family": "gateway", "cls": req, "req": rq, "resp": rs}


@st.composite
def job_cases(draw):
    # a counted class puts a non-finite float (which JSON has no notation for) into one static input: the value must be preserved
    # or refused, not replaced (the replay file names it, the value itself is made when the case is run)
    nonfinite = draw(st.one_of(st.none(), st.none(), st.none(),
                               st.tuples(st.integers(0, 7), st.sampled_from(["nan", "inf", "-inf"]), st.booleans()).map(list)))
    return {"family": "job", "spec": draw(job_specs(max_tasks=8, with_serdes=True)), "nonfinite": nonfinite}


cases = st.one_of(shm_cases(), shm_cases(), msg_cases(), msg_cases(), report_cases(), gateway_cases(), job_cases())


# ------------------------------------------------------------------------------------------------------


def _same(a, b) -> bool:
    if type(a) is not type(b):
        return False
    if dataclasses.is_dataclass(a) or hasattr(a, "model_fields"):
        return a == b
    return getattr(a, "__dict__", None) == getattr(b, "__dict__", None)


def check_shm(case) -> tuple[bool, list[str]]:
    cls = getattr(shmapi, case["cls"])
    vals = dict(case["vals"])
    for f in (dataclasses.fields(cls) if dataclasses.is_dataclass(cls) else []):
        if inspect.isclass(f.type) and issubclass(f.type, shmapi.Enum):
            vals[f.name] = f.type(vals[f.name])
    m = cls(**vals)
    classes = ["shm:" + case["cls"]]
    try:
        raw = shmapi.ser(m)
    except Exception as e:
        if case["bad"] is None:
            raise Violation(f"shm.api.ser({m!r}) raised {type(e).__name__}: {e} for an in-domain message", "shm-encode-raises")
        return False, classes + ["shm_out_of_domain_rejected"]
    try:
        back = shmapi.deser(raw)
    except Exception as e:
        raise Violation(f"shm.api.deser(ser({m!r})) raised {type(e).__name__}: {e}", "shm-decode-raises")
    if not _same(m, back):
        what = "silently altered an out-of-domain value" if case["bad"] else "round trip differs"
        raise Violation(f"shm {what}: {m!r} -> {back!r}", "shm-roundtrip")
    if case["bad"] is not None:
        raise Violation(f"out-of-domain value round-tripped?! {m!r}", "shm-domain")  # cannot happen; guards the generator
    big = any(isinstance(v, int) and v >= 2**32 for v in vals.values())
    if big:
        classes.append("size_ge_2^32")
    return big, classes


def check_msg(case) -> tuple[bool, list[str]]:
    m = _mk_msg(case["cls"], case["vals"])
    classes = ["msg:" + case["cls"], "route:" + case["route"]]
    if case["route"] == "pickle":
        back = serde.des_message(serde.ser_message(m))
        if not _same(m, back):
            raise Violation(f"des_message(ser_message(m)) differs: {m!r} -> {back!r}", "msg-pickle")
    else:
        net = fakezmq.Net()
        with fakezmq.patched(net):
            lis = comms.Listener("tcp://rx:1")
            ackl = comms.Listener("tcp://tx:1")
            if isinstance(m, msg.DatasetTransmitPayload):
                comms.send_data("tcp://rx:1", m, msg.Syn(idx=7, addr="tcp://tx:1"))
            else:
                snd = comms.ReliableSender("tcp://tx:1", 800)
                snd.add_host("h", "tcp://rx:1")
                snd.send("h", m)
            got = lis.recv_messages(0)
            acks = ackl.recv_messages(0)
        if len(got) != 1 or not _same(got[0], m):
            raise Violation(f"wire round trip: sent {m!r}, listener delivered {got!r}", "msg-wire")
        if len(acks) != 1 or not isinstance(acks[0], msg.Ack):
            raise Violation(f"wire round trip: expected exactly one Ack, got {acks!r}", "msg-wire-ack")
    nested = any(isinstance(x, (list, bytes, dict)) and len(x) > 0 for x in case["vals"].values())
    return nested, classes


def check_report(case) -> tuple[bool, list[str]]:
    v = case["vals"]
    r = report.ControllerReport(job_id=v["job_id"], current_status=v["current_status"], timestamp=v["timestamp"],
                                results=[(DatasetId(d[0], d[1]), b) for d, b in v["results"]])
    back = report.deserialize(report.serialize(r))
    if not _same(r, back):
        raise Violation(f"ControllerReport round trip differs: {r!r} -> {back!r}", "report")
    return bool(v["results"]), ["report"]


def check_gateway(case) -> tuple[bool, list[str]]:
    kind = case["cls"]
    rq, rs = case["req"], case["resp"]
    if kind == "SubmitJob":
        job = build_job(rq["job"]) if rq["job"] is not None else None
        req = gapi.SubmitJobRequest(job=gapi.JobSpec(benchmark_name=rq["benchmark_name"], envvars=dict(rq["envvars"]), job_instance=job,
                                                     workers_per_host=rq["workers_per_host"], hosts=rq["hosts"], use_slurm=rq["use_slurm"]))
        resp = gapi.SubmitJobResponse(**rs)
    elif kind == "JobProgress":
        req = gapi.JobProgressRequest(job_ids=list(rq["job_ids"]))
        resp = gapi.JobProgressResponse(progresses=dict(rs["progresses"]), error=rs["error"])
    elif kind == "ResultRetrieval":
        req = gapi.ResultRetrievalRequest(job_id=rq["job_id"], dataset_id=DatasetId(*rq["dataset_id"]))
        resp = gapi.ResultRetrievalResponse(**rs)
    else:
        req = gapi.ShutdownRequest()
        resp = gapi.ShutdownResponse(**rs)
    net = fakezmq.Net()
    seen: dict = {}

    def server(b: bytes) -> bytes:
        seen["req"] = gclient.parse_request(b)
        return gclient.serialize_response(resp)

    net.rep_handlers["tcp://gw:1"] = server
    old = gclient.zmq
    gclient.zmq = net.module()
    try:
        try:
            got = gclient.request_response(req, "tcp://gw:1")
        except Exception as e:
            raise Violation(f"gateway round trip of {kind} raised {type(e).__name__}: {e}", "gateway-raises")
    finally:
        gclient.zmq = old
    if not _same(seen.get("req"), req):
        raise Violation(f"gateway request differs after parse: {req!r} -> {seen.get('req')!r}", "gateway-request")
    if not _same(got, resp):
        raise Violation(f"gateway response differs after parse: {resp!r} -> {got!r}", "gateway-response")
    nt = (kind == "SubmitJob" and rq["job"] is not None and len(rq["job"]["tasks"]) > 0) or (kind == "JobProgress" and bool(rs["progresses"]))
    return nt, ["gateway:" + kind]


def _same_tree(a, b) -> bool:
    """Equality of plain trees with NaN equal to NaN."""
    if isinstance(a, float) and isinstance(b, float):
        return (a != a and b != b) or a == b
    if type(a) is not type(b):
        return False
    if isinstance(a, dict):
        return a.keys() == b.keys() and all(_same_tree(a[k], b[k]) for k in a)
    if isinstance(a, (list, tuple)):
        return len(a) == len(b) and all(_same_tree(x, y) for x, y in zip(a, b))
    return a == b


def _check_job_nonfinite(job: JobInstance, nf: list, stats) -> tuple[bool, list[str]] | None:
    """One static input of one task becomes nan / inf / -inf (bare or inside a list). Outcomes the property allows: the encoder
    refuses, or the value comes back. Known finding F41: it comes back as None with everything else intact."""
    import os
    import tempfile

    import cascade.benchmarks.__main__ as bench_main

    idx, what, nested = nf
    names = sorted(job.tasks)
    name = names[idx % len(names)]
    t = job.tasks[name]
    field = "static_input_kw" if t.static_input_kw else ("static_input_ps" if t.static_input_ps else None)
    if field is None:
        return None  # the task has no static input to replace: the plain route is checked instead
    key = sorted(getattr(t, field))[0]
    v = float(what)

    def with_value(x):
        t2 = t.model_copy(update={field: {**getattr(t, field), key: [x] if nested else x}})
        return job.model_copy(update={"tasks": {**job.tasks, name: t2}})

    job_nf, job_none = with_value(v), with_value(None)
    classes = ["job", "job_nonfinite:" + what + ("_nested" if nested else "")]
    for route in ("json", "file"):
        try:
            raw = orjson.dumps(job_nf.dict())
        except Exception:
            classes.append("nonfinite_refused")
            continue
        if route == "json":
            back = JobInstance(**orjson.loads(raw))
        else:
            fd, path = tempfile.mkstemp(prefix="verif-c17-", suffix=".json")
            try:
                with os.fdopen(fd, "wb") as f:
                    f.write(raw)
                back = bench_main.get_job(None, path)
            finally:
                os.unlink(path)
        if _same_tree(back.dict(), job_nf.dict()):
            classes.append("nonfinite_preserved")
        elif _same_tree(back.dict(), job_none.dict()) and stats is not None and common.known(stats, PROPERTY, "F41"):
            classes.append("known_F41")
        else:
            raise Violation(f"JobInstance with static input {key!r}={'[' + what + ']' if nested else what} of task {name!r} differs after the "
                            f"{route} route: it came back as {getattr(back.tasks[name], field).get(key)!r}", "job-nonfinite")
    return True, classes


def check_job(case, stats=None) -> tuple[bool, list[str]]:
    job = build_job(case["spec"])
    if case.get("nonfinite") and job.tasks:
        r = _check_job_nonfinite(job, case["nonfinite"], stats)
        if r is not None:
            return r
    try:
        raw = orjson.dumps(job.dict())
        back = JobInstance(**orjson.loads(raw))
    except Exception as e:
        raise Violation(f"JobInstance JSON round trip raised {type(e).__name__}: {e}", "job-json-raises")
    if back != job:
        raise Violation(f"JobInstance differs after JSON round trip: {job!r} -> {back!r}", "job-json")
    # the same bytes through the file route the gateway uses to hand a job to the process that runs it: written as
    # gateway.router._spawn_local writes them, read back by the real benchmarks entry point
    import os
    import tempfile

    import cascade.benchmarks.__main__ as bench_main

    fd, path = tempfile.mkstemp(prefix="verif-c17-", suffix=".json")
    try:
        with os.fdopen(fd, "wb") as f:
            f.write(raw)
        try:
            back2 = bench_main.get_job(None, path)
        except Exception as e:
            raise Violation(f"reading the job instance file back raised {type(e).__name__}: {e}", "job-file-raises")
    finally:
        os.unlink(path)
    if back2 != job:
        diff = [t for t in job.tasks if back2.tasks.get(t) != job.tasks[t]]
        raise Violation(f"JobInstance differs after the instance-file route (get_job): tasks that differ {diff[:3]}, edges equal "
                        f"{back2.edges == job.edges}, ext_outputs equal {back2.ext_outputs == job.ext_outputs}", "job-file")
    kw = any(e.sink_input_kw is not None for e in job.edges)
    mo = any(len(t.definition.output_schema) > 1 for t in job.tasks.values())
    return kw and mo, ["job"] + (["job_kw_edge"] if kw else []) + (["job_multi_output"] if mo else [])


def run_case(case, stats=None) -> tuple[bool, list[str]]:
    if case["family"] == "job":
        return check_job(case, stats)
    return {"shm": check_shm, "msg": check_msg, "report": check_report, "gateway": check_gateway}[case["family"]](case)


def shard(seed: int, cases_n: int, tier: str) -> Stats:
    st_ = Stats()
    st_.extra["shm_classes_enumerated"] = [c.__name__ for c in shm_classes()]
    common.hyp_run(cases, lambda c: run_case(c, st_), st_, seed, cases_n)
    return st_


def replay(case: dict) -> None:
    run_case(case)
