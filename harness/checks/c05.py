"""C05 — a failing task or dying worker-side process fails the run, never hangs it.

Runs real local clusters (fork, zmq over loopback TCP, UDP shm server, data server, worker processes) and injects generated faults.
"""

from __future__ import annotations

import os
import shutil
import tempfile

from hypothesis import strategies as st

from .. import common, realcluster
from ..common import Stats, Violation
from ..genjob import build_job, job_specs, same_value, spec_edges
from ..refeval import evaluate

PROPERTY = "C05"
LEVEL = "fault_enumeration"
RULE = (
    "cases = fault plans on a real local cluster: a job of 2-6 tasks (harness.genjob, with a requested output downstream of the "
    "victim), 1-2 hosts x 1-2 workers, and one fault: none; or the victim task's body raises (with a message, with an empty message, bare assert) / calls sys.exit(k in {0,1,3}) / "
    "os._exit / SIGKILLs its own process / SIGTERMs or SIGKILLs its host's shm server while holding its inputs, before producing any output, between two yields of a multi-output task, or after its last yield (all outputs published); or the harness "
    "SIGKILLs/SIGTERMs a chosen helper process (worker i, data server, shm server of a chosen host) once the controller has seen k "
    "events. The 38 kinds of fault (10 body faults x 3 positions, 3 helpers x 2 signals, none, a failing task next to a sibling task that ignores SIGTERM) are dealt round-robin over the case slots "
    "of a run, so every kind is sampled at least once per 48 cases; host names carry generated suffixes (up to 28 characters). "
    "Oracle: run() ends within the deadline (a time-out is confirmed by a second run with doubled deadline on a distant port block before it counts); "
    "if the fault makes a requested output impossible run() ends with an exception; if it returns, every requested value equals the "
    "sequential reference; afterwards, within a grace period, no executor, no descendant process and no /dev/shm/sCasc<host>* segment "
    "of this cluster is left. non-trivial = a fault other than none whose victim was reached (marker file written by the task body / "
    "by the harness when the kill landed); distinct = fingerprint of the plan"
)
ASSUMPTIONS = [
    "crash points are those a task body or an event-count trigger can hit, not arbitrary instructions; death of the executor or of the "
    "controller itself is outside the statement",
    "hang detection is a deadline (40 s; fault-free and detected-fault runs take 0.3-5 s), confirmed by a re-run with 80 s",
    "loopback TCP/UDP on a private port block per case; real multi-host networking, slurm and uv environments are out of reach offline",
]
DEADLINE_S = 40
TIERS = {
    "quick": {"cases": 48, "shards": 16},
    "thorough": {"cases": 640, "shards": 16},
}
MIN_NONTRIVIAL = 2
MANIFEST = {
    "engine": "realcluster",
    "technique": "fault-injection testing on real processes: Hypothesis-generated, kind-stratified fault plans (task-body faults, helper kills) against a real local cluster, deadline + process-table + /dev/shm oracle",
    "text": "Each generated plan starts a real local cluster in its own session and injects one fault; the harness checks that the "
            "controller's run() terminates (with an error whenever a requested output became impossible, never with a wrong value) and "
            "that afterwards no process of the cluster and none of its shared-memory segments is left.",
    "note": "Fault enumeration over the generated plan space, not a proof; arbitrary crash points inside library code are not reached.",
}

KINDS = [("raise", None), ("raise_empty", None), ("assert", None), ("exit", 0), ("exit", 1), ("exit", 3), ("os_exit", 3), ("sigkill", None),
         ("term_shm", None), ("kill_shm", None)]


STRATA = ([("task", k, c, at) for (k, c) in KINDS for at in ("before", "between", "after")]
          + [("helper", h, sig, None) for h in ("worker", "data", "shm") for sig in ("SIGKILL", "SIGTERM")]
          + [("none", None, None, None), ("stubborn_sibling", None, None, None)])


@st.composite
def plans(draw, stratum=None):
    """stratum: (where, kind/helper, code/signal, at) fixes the kind of fault (stratified sampling: with 48 real clusters per quick run
    a purely random choice leaves some of the 37 kinds of fault un-sampled in most runs); the job, the victim, the cluster shape
    and the moment of a helper kill are always generated."""
    if stratum is not None and stratum[0] == "stubborn_sibling":
        # two independent tasks running at the same time on two workers: one fails after two seconds, the other ignores SIGTERM and
        # would run for minutes. run() must fail promptly and the tear-down must still get rid of every process
        spec = draw(job_specs(max_tasks=2, min_tasks=2, gpu=False, ext="none", shape_bias=False))
        for t in spec["tasks"]:
            t["fn_of"], t["twin_of"] = None, None
            t["args"] = [sl for sl in t["args"] if "e" not in sl]
            t["kwargs"] = {k: sl for k, sl in t["kwargs"].items() if "e" not in sl}
        spec["tasks"] = [t for t in spec["tasks"]][:2]
        vi = draw(st.integers(0, 1))
        spec["ext"] = [[vi, spec["tasks"][vi]["outs"][-1]]]
        # two hosts with one worker each: there the scheduler runs the two tasks side by side; on one host with two workers it was
        # seen to queue both on one worker, and the fault then never happens (counted inconclusive below)
        two_hosts = draw(st.integers(0, 7)) != 0
        return {"job": spec, "hosts": 2 if two_hosts else 1, "workers": 1 if two_hosts else 2,
                "fault": {"where": "task", "task": spec["tasks"][vi]["name"], "kind": "raise_late", "at": "before",
                          "stubborn": spec["tasks"][1 - vi]["name"]},
                "host_suffix": draw(st.sampled_from(["", "-n01"]))}
    spec = draw(job_specs(max_tasks=6, min_tasks=2, gpu=False, ext="none"))
    for t in spec["tasks"]:
        t["fn_of"] = None  # a callable shared with the victim would carry the fault into a second task
    n = len(spec["tasks"])
    vi = draw(st.integers(0, n - 1))
    if stratum is not None and stratum[0] == "task" and stratum[3] != "before":
        multi_idx = [i for i, t in enumerate(spec["tasks"]) if len(t["outs"]) > 1]
        if multi_idx:
            vi = draw(st.sampled_from(multi_idx))
        else:  # make the victim a two-output generator; its consumers keep reading its first output
            old = spec["tasks"][vi]["outs"][0]
            spec["tasks"][vi]["outs"] = ["0", "1"]
            for t in spec["tasks"]:
                for sl in list(t["args"]) + list(t["kwargs"].values()):
                    if "e" in sl and sl["e"][0] == vi and sl["e"][1] == old:
                        sl["e"] = [vi, "0"]
    # requested outputs: a dataset downstream of (or produced by) the victim, plus sometimes others
    down = {vi}
    for (s, _o, d, _p) in sorted(spec_edges(spec), key=lambda e: e[2]):
        if s in down:
            down.add(d)
    target = max(down)
    ext = [[target, spec["tasks"][target]["outs"][-1]]]
    if draw(st.booleans()):
        j = draw(st.integers(0, n - 1))
        cand = [j, spec["tasks"][j]["outs"][0]]
        if cand not in ext:
            ext.append(cand)
    spec["ext"] = ext
    hosts = draw(st.integers(1, 2))
    workers = draw(st.integers(1, 2))
    where = stratum[0] if stratum is not None else draw(st.sampled_from(["task", "task", "task", "task", "helper", "helper", "none"]))
    if where == "task":
        kind, code = (stratum[1], stratum[2]) if stratum is not None else draw(st.sampled_from(KINDS))
        multi = len(spec["tasks"][vi]["outs"]) > 1
        at = (stratum[3] if stratum is not None else draw(st.sampled_from(["before", "between", "after"]))) if multi else "before"
        fault = {"where": "task", "task": spec["tasks"][vi]["name"], "kind": kind, "at": at}
        if code is not None:
            fault["code"] = code
    elif where == "helper":
        helper = stratum[1] if stratum is not None else draw(st.sampled_from(["worker", "worker", "data", "shm"]))
        fault = {"where": "helper", "helper": helper, "host": draw(st.integers(0, hosts - 1)), "worker": draw(st.integers(0, workers - 1)),
                 "signal": stratum[2] if stratum is not None else draw(st.sampled_from(["SIGKILL", "SIGKILL", "SIGTERM"])),
                 "after_events": draw(st.integers(0, 4))}
    else:
        fault = {"where": "none"}
    # host names as a batch system hands them out can be long (the shm segment names are derived from them)
    suffix = draw(st.sampled_from(["", "", "-compute-node-000017.cluster", "-n01"]))
    return {"job": spec, "hosts": hosts, "workers": workers, "fault": fault, "host_suffix": suffix}


_case_no = [0]


def _known(plan, out, stats) -> str | None:
    """Returns the id of a listed known finding whose signature matches this failing plan, else None."""
    return None


def run_plan_checked(plan: dict, stats: Stats | None) -> tuple[bool, list[str]]:
    _case_no[0] += 1
    shard = int(os.environ.get("VERIF_SHARD", "0"))
    port = 10000 + shard * 1300 + (_case_no[0] % 12) * 100
    tmp = tempfile.mkdtemp(prefix="verif-c05-")
    p = dict(plan)
    p.update({"port": port, "prefix": f"q{os.getpid() % 10000}x{_case_no[0] % 1000}", "marker": os.path.join(tmp, "marker"), "grace_s": 45})
    try:
        out = realcluster.run_plan(p, DEADLINE_S)
        if out["verdict"] == "hang":
            # confirm: same plan, doubled deadline
            _case_no[0] += 1
            p2 = dict(p)
            # far from the first block (see C01): a foreign listener on one of the ports must not look like a hang
            p2.update({"port": 31000 + shard * 100 + 50, "prefix": f"q{os.getpid() % 10000}y{_case_no[0] % 1000}"})
            out2 = realcluster.run_plan(p2, 2 * DEADLINE_S)
            if out2["verdict"] != "hang":
                if stats is not None:
                    stats.inconclusive += 1
                out = out2
        reached = os.path.exists(p["marker"])
        f = plan["fault"]
        what = f"fault {f} on {plan['hosts']}x{plan['workers']}"
        tags = ["fault:" + (f["where"] if f["where"] != "task" else f"{f['kind']}{f.get('code', '')}@{f['at']}")]
        if f["where"] == "helper":
            tags = [f"fault:kill-{f['helper']}-{f['signal']}"]
        if out["verdict"] == "harness-error":
            raise common.HarnessError(f"case runner failed: {out.get('exc')}")
        if out["verdict"] == "hang" and f.get("stubborn") and not reached:
            # the scheduler queued the failing task BEHIND its minutes-long sibling (same worker) instead of next to it: the fault never
            # happened, and a run that waits for a task that is still running is not hanging. Nothing learnt from this plan
            if stats is not None:
                stats.inconclusive += 1
            return False, tags + ["stubborn_sibling_ran_first"]
        if out["verdict"] == "hang":
            raise Violation(f"{what}: run() did not end within {2 * DEADLINE_S}s (confirmed by a second run)", "hang")
        tags.append("verdict:" + out["verdict"])
        # a fault after the last yield happens when every output is already published: returning the right values is as acceptable
        # as failing the run
        if f["where"] == "task" and f["at"] != "after" and f["kind"] not in ("term_shm", "kill_shm") and reached and out["verdict"] == "returned":
            raise Violation(f"{what}: the victim never produced its outputs but run() returned normally with {out.get('outputs')}", "failure-swallowed")
        if out["verdict"] == "returned":
            job = build_job(plan["job"])
            ref = evaluate(job)
            for ds in job.ext_outputs:
                got = out.get("outputs", {}).get(repr(ds), "<missing>")
                if not same_value(got, ref[(ds.task, ds.output)]):
                    raise Violation(f"{what}: run() returned {ds} = {got!r}, sequential evaluation gives {ref[(ds.task, ds.output)]!r}", "wrong-value")
        if "teardown" not in out:
            raise Violation(f"{what}: no teardown report (case runner stuck after run() ended)", "teardown-stuck")
        if out["left_executors"] or out["left_processes"]:
            raise Violation(f"{what}: after run() ended ({out['verdict']}) executors {out['left_executors']} / processes "
                            f"{out['left_processes']} are still alive after {p['grace_s']}s", "processes-left")
        if out["left_segments"]:
            raise Violation(f"{what}: shared-memory segments left behind: {out['left_segments'][:3]}", "segments-left")
        return (f["where"] != "none" and reached), tags + (["victim_reached"] if reached else [])
    finally:
        shutil.rmtree(tmp, ignore_errors=True)


def shard(seed, cases_n, tier):
    st_ = Stats()

    def body(plan):
        return run_plan_checked(plan, st_)

    # stratified: the kinds of fault (STRATA) are dealt round-robin over the shards' case slots (offset by the seed); what is left of
    # the budget is drawn freely. One Hypothesis run per slot (its first, minimal example skipped): the stratum is fixed outside
    # Hypothesis, which would otherwise favour the first few kinds -- and must see the same strategy on every re-draw
    idx = int(os.environ.get("VERIF_SHARD", "0"))
    nsh = int(os.environ.get("VERIF_SHARDS", "1"))
    total = cases_n * nsh
    full_rounds = total // len(STRATA)
    for j in range(cases_n):
        slot = idx + j * nsh
        stratum = STRATA[(slot + seed // 1000) % len(STRATA)] if slot < full_rounds * len(STRATA) else None
        common.hyp_run(plans(stratum), body, st_, seed * 131 + j, 1, shrink=False, skip_first=True)
        if st_.violations:
            break
    return st_


def replay(case):
    run_plan_checked(case, None)
