"""C10 — lowering a graph to a job and running a task preserves what each node computes.

The real graph2job and the real runner.run / execute_sequence are driven sequentially (no scheduler) with an in-memory Memory
stand-in; node callables are recording functions, so the stored value of every dataset is compared with a reference evaluation
of the graph spec written from the statement.
"""

from __future__ import annotations

import numpy as np
from hypothesis import strategies as st

from .. import common
from ..common import Stats, Violation

import cascade.executor.runner.entrypoint as entrypoint  # noqa: E402
from cascade.controller.notify import is_last_output_of  # noqa: E402
from cascade.executor.msg import TaskFailure, TaskSequence  # noqa: E402
from cascade.executor.runner.packages import PackagesEnv  # noqa: E402
from cascade.executor.runner.runner import run as runner_run  # noqa: E402
from cascade.low.core import DatasetId, WorkerId  # noqa: E402
from cascade.low.into import graph2job  # noqa: E402
from cascade.low.views import param_source  # noqa: E402
from earthkit.workflows import fluent  # noqa: E402
from earthkit.workflows.graph import Graph, Node  # noqa: E402

PROPERTY = "C10"
LEVEL = "exploration"
RULE = (
    "cases = (hand) graphs of 1-8 nodes whose payloads are (recording callable, args, kwargs): arbitrary arity, input names "
    "interleaved with static positional values at any position, keyword statics, generator nodes with N in 1..15 declared outputs "
    "named as the fluent API names them, outputs consumed by several nodes or none, optionally a generator that yields one value "
    "fewer or more than declared; (fluent) from_source -> map(generator, yields=N coordinates, N in 1..15) -> optional map/reduce "
    "consumers; (payload) one user-supplied fluent Payload object (statics, optional explicit input placeholder, keywords, or a "
    "functools.partial) used for a map and for a reduce over 2-11 inputs (batch sizes 0/2/3/4, uneven batches), shared or separate "
    "object, either construction order. non-trivial = a multi-output node with N >= 3 consumed by >= 2 nodes, or a node mixing >= 2 inputs with >= 1 static "
    "positional between them, or a count mismatch, or a shared Payload object / uneven batches; counters for N > 10 and |yields - N| = 1; distinct = fingerprint of the case"
)
ASSUMPTIONS = [
    "multi-output nodes name their outputs str(i) in declaration order (the fluent convention); static string arguments never equal "
    "one of the node's own input names (into.py documents that ambiguity)",
    "the runner is driven in topological order with an in-memory stand-in for Memory; shared memory, the worker loop and the "
    "scheduler are covered by C01/C02",
    "completion inference is checked as: the dataset notify.is_last_output_of designates is the one runner.run stores last",
]
TIERS = {
    "quick": {"cases": 2400, "shards": 8},
    "thorough": {"cases": 240000, "shards": 16},
}
MANIFEST = {
    "engine": "structural-oracle",
    "technique": "property-based testing (Hypothesis) of graph2job + runner.run against a reference evaluator with recording callables",
    "text": "Generated hand-built and fluent graphs are lowered with the real graph2job (structure compared with the spec: one task per "
            "node, one edge per input at the right position, statics, outputs) and executed task by task with the real runner; every "
            "stored dataset must equal the reference value of the output declared at that index, a yield-count mismatch must surface as "
            "TaskFailure, and the dataset the controller treats as 'task finished' must be the one stored last.",
    "note": "Search, not proof. Sequential driver; N up to 15.",
}


def rec_fn(name: str, nout: int, is_gen: bool, yields: int):
    def fn(*args, **kwargs):
        base = ("T", name, tuple(args), tuple(sorted(kwargs.items())))
        if not is_gen:
            return base
        return ((base, i) for i in range(yields))

    return fn


statics = st.one_of(st.integers(-3, 3), st.sampled_from(["s", "", "x y"]), st.none(), st.booleans(), st.floats(-2, 2, width=16))


@st.composite
def hand_specs(draw):
    n = draw(st.integers(1, 8))
    perm = draw(st.permutations(list(range(n))))
    nodes: list[dict] = []
    for i in range(n):
        kind = draw(st.sampled_from(["single", "single", "gen", "gen1", "gen_single"]))
        if kind == "single":
            nout, is_gen = 1, False
        elif kind == "gen1":
            nout, is_gen = 1, False  # a one-output node declared through an explicit single name
        elif kind == "gen_single":
            nout, is_gen = 1, True  # a generator that yields exactly one value for its one declared output
        else:
            nout = draw(st.sampled_from([2, 3, 4, 9, 10, 11, 12, 15]))
            is_gen = True
        nin = draw(st.integers(0, min(3, i))) if i else 0
        inputs = {}
        for k in range(nin):
            src = draw(st.integers(0, i - 1))
            so = nodes[src]["outs"]
            inputs[f"input{k}"] = [src, draw(st.sampled_from(so))]
        nstat = draw(st.sampled_from([0, 1, 2, 3, 3, 11]))
        items = [{"in": k} for k in inputs] + [{"s": draw(statics)} for _ in range(nstat)]
        items = draw(st.permutations(items))
        kwargs = {k: draw(statics) for k in draw(st.lists(st.sampled_from(["a", "b", "kw"]), max_size=2, unique=True))}
        outs = [str(j) for j in range(nout)] if is_gen else ["0"]
        nodes.append({"name": f"n{perm[i]}", "outs": outs, "gen": is_gen, "args": list(items), "kwargs": kwargs, "inputs": inputs,
                      "explicit_outputs": kind != "single"})
    short = None
    gens = [i for i, nd in enumerate(nodes) if nd["gen"]]
    if gens and draw(st.integers(0, 3)) == 0:
        short = [draw(st.sampled_from(gens)), draw(st.sampled_from([-1, 1]))]
    return {"kind": "hand", "nodes": nodes, "short": short}


@st.composite
def fluent_specs(draw):
    return {"kind": "fluent", "k": draw(st.integers(1, 3)), "N": draw(st.sampled_from([1, 2, 3, 5, 9, 10, 11, 12, 15])),
            "consumer": draw(st.sampled_from(["none", "map", "reduce_y", "reduce_x"])),
            "labels": draw(st.booleans())}


@st.composite
def payload_specs(draw):
    """One user-supplied fluent Payload object (statics, an optional explicit input placeholder, keywords; or a functools.partial)
    used for nodes of different arity: a map (1 input) and a reduce over k inputs, optionally batched with uneven batches, in either
    construction order, with the SAME Payload object or two equal ones."""
    k = draw(st.sampled_from([2, 3, 4, 5, 7, 11]))
    nstat = draw(st.integers(0, 3))
    stat = [draw(statics) for _ in range(nstat)]
    return {"kind": "payload", "k": k, "statics": stat, "placeholder": draw(st.one_of(st.none(), st.integers(0, nstat))),
            "kwargs": {kk: draw(statics) for kk in draw(st.lists(st.sampled_from(["a", "kw"]), max_size=2, unique=True))},
            "partial": draw(st.booleans()), "share": draw(st.booleans()), "order": draw(st.sampled_from(["map_first", "reduce_first"])),
            "batch": draw(st.sampled_from([0, 0, 2, 3, 4])), "second_reduce": draw(st.booleans())}


cases = st.one_of(hand_specs(), hand_specs(), fluent_specs(), payload_specs())


class FakeMemory:
    def __init__(self) -> None:
        self.store: dict = {}
        self.order: list = []

    def handle(self, outputId, outputSchema, outputValue, isPublish) -> None:
        self.store[outputId] = outputValue
        self.order.append(outputId)

    def provide(self, inputId, annotation):
        if inputId not in self.store:
            raise KeyError(f"input {inputId} requested before it was produced")
        return self.store[inputId]

    def flush(self) -> None:
        pass


def _run_job(job, order: list[str], expect_fail_at: str | None, classes: list[str]):
    """Executes tasks in `order` with the real runner; returns the memory and the reported failures."""
    mem = FakeMemory()
    ps = param_source(job.edges)
    rc = entrypoint.RunnerContext(workerId=WorkerId("h", "w0"), job=job, callback="tcp://nowhere", param_source=ps)
    reported: list = []
    old = entrypoint.callback
    entrypoint.callback = lambda addr, m: reported.append(m)
    try:
        with PackagesEnv() as pckg:
            for t in order:
                before = len(mem.order)
                n_rep = len(reported)
                entrypoint.execute_sequence(TaskSequence(worker=WorkerId("h", "w0"), tasks=[t], publish=set()), mem, pckg, rc)
                if len(reported) > n_rep:
                    if t != expect_fail_at:
                        raise Violation(f"task {t} reported {reported[-1]!r} although the graph is well formed", "unexpected-failure")
                    return mem, reported
                if t == expect_fail_at:
                    raise Violation(f"generator of task {t} yields a different number of values than declared but no TaskFailure "
                                    f"was reported", "count-mismatch-ignored")
                # completion inference: the dataset the controller waits for is the one stored last
                produced = mem.order[before:]
                lasts = [d for d in produced if is_last_output_of(d, job)]
                if not produced or lasts != [produced[-1]]:
                    raise Violation(f"task {t}: stored {produced}, controller treats {lasts} as completion marker (must be exactly "
                                    f"the last stored)", "completion-marker")
    finally:
        entrypoint.callback = old
    return mem, reported


def run_hand(c) -> tuple[bool, list[str]]:
    nodes = c["nodes"]
    classes = ["kind:hand"]
    objs: list[Node] = []
    short = c["short"]
    for i, nd in enumerate(nodes):
        yields = len(nd["outs"]) + (short[1] if short and short[0] == i else 0)
        fn = rec_fn(nd["name"], len(nd["outs"]), nd["gen"], yields)
        args = [a["in"] if "in" in a else a["s"] for a in nd["args"]]
        ins = {k: objs[src].get_output(out) for k, (src, out) in nd["inputs"].items()}
        outputs = list(nd["outs"]) if (nd["gen"] or nd["explicit_outputs"]) else None
        objs.append(Node(nd["name"], outputs, (fn, args, dict(nd["kwargs"])), **ins))
    consumed = {v[0] for nd in nodes for v in nd["inputs"].values()}
    g = Graph([objs[i] for i in range(len(nodes)) if i not in consumed])
    try:
        job = graph2job(g)
    except Exception as e:
        raise Violation(f"graph2job raised {type(e).__name__}: {e}", "lowering-raises")
    # ---- structure
    if set(job.tasks) != {nd["name"] for nd in nodes} or len(job.tasks) != len(nodes):
        raise Violation(f"tasks {sorted(job.tasks)} expected one per node {sorted(nd['name'] for nd in nodes)}", "one-task-per-node")
    exp_edges = []
    for nd in nodes:
        args = nd["args"]
        for k, (src, out) in nd["inputs"].items():
            pos = [p for p, a in enumerate(args) if a.get("in") == k][0]
            exp_edges.append((nodes[src]["name"], out, nd["name"], pos))
    got_edges = [(e.source.task, e.source.output, e.sink_task, e.sink_input_ps) for e in job.edges]
    if sorted(got_edges) != sorted(exp_edges) or any(e.sink_input_kw is not None for e in job.edges):
        raise Violation(f"edges {sorted(got_edges)} expected {sorted(exp_edges)}", "one-edge-per-input")
    for nd in nodes:
        t = job.tasks[nd["name"]]
        if list(t.definition.output_schema.keys()) != nd["outs"] and set(t.definition.output_schema.keys()) != set(nd["outs"]):
            raise Violation(f"task {nd['name']}: outputs {list(t.definition.output_schema)} expected {nd['outs']}", "outputs")
        for p, a in enumerate(nd["args"]):
            got = t.static_input_ps.get(str(p), None)
            if "s" in a:
                if str(p) not in t.static_input_ps or common.canonical(got) != common.canonical(a["s"]) or type(got) is not type(a["s"]):
                    raise Violation(f"task {nd['name']}: static positional {p} is {got!r} expected {a['s']!r}", "static-ps")
            elif got is not None:
                raise Violation(f"task {nd['name']}: position {p} is an input but carries static {got!r}", "static-ps")
        if set(t.static_input_ps) - {str(p) for p in range(len(nd["args"]))}:
            raise Violation(f"task {nd['name']}: unexpected static positions {sorted(t.static_input_ps)}", "static-ps")
        if common.canonical(t.static_input_kw) != common.canonical(nd["kwargs"]):
            raise Violation(f"task {nd['name']}: static kwargs {t.static_input_kw} expected {nd['kwargs']}", "static-kw")
    # ---- execution
    expect_fail = nodes[short[0]]["name"] if short else None
    order = [nd["name"] for nd in nodes]
    mem, reported = _run_job(job, order, expect_fail, classes)
    ref: dict = {}
    for i, nd in enumerate(nodes):
        if short and i >= short[0]:
            break
        args = tuple(ref[(nodes[a_src[0]]["name"], a_src[1])] if a_src else a_s for a_src, a_s in
                     ((nd["inputs"].get(a["in"]) if "in" in a else None, a.get("s")) for a in nd["args"]))
        base = ("T", nd["name"], args, tuple(sorted(nd["kwargs"].items())))
        if nd["gen"]:
            for j, o in enumerate(nd["outs"]):
                ref[(nd["name"], o)] = (base, j)
        else:
            ref[(nd["name"], nd["outs"][0])] = base
    for (tn, o), v in ref.items():
        got = mem.store.get(DatasetId(tn, o), "<missing>")
        if got != v:
            raise Violation(f"dataset {tn}.{o}: stored {got!r} expected {v!r}", "value")
    if short:
        if not any(isinstance(m, TaskFailure) and m.task == expect_fail for m in reported):
            raise Violation(f"count mismatch in {expect_fail} reported as {reported!r}, expected a TaskFailure for that task", "count-mismatch-report")
        classes.append(f"count_mismatch:{short[1]:+d}")
    cons_count = {}
    for nd in nodes:
        for (src, out) in nd["inputs"].values():
            cons_count.setdefault(src, set()).add(nd["name"])
    nt = bool(short)
    for i, nd in enumerate(nodes):
        if nd["gen"] and len(nd["outs"]) >= 3 and len(cons_count.get(i, ())) >= 2:
            nt = True
        if len(nd["outs"]) > 10:
            classes.append("N>10")
        pos_in = [p for p, a in enumerate(nd["args"]) if "in" in a]
        if len(pos_in) >= 2 and any("s" in nd["args"][p] for p in range(pos_in[0], pos_in[-1])):
            nt = True
            classes.append("static_between_inputs")
    return nt, sorted(set(classes))


def _src(i):
    def f():
        return ("S", i)

    f.__name__ = f"src{i}"
    return f


def _gen(N):
    def g(x):
        for j in range(N):
            yield ("G", x, j)

    return g


def _inc(x):
    return ("I", x)


def _tot(*xs):
    return ("R", tuple(xs))


def run_fluent(c) -> tuple[bool, list[str]]:
    k, N = c["k"], c["N"]
    classes = ["kind:fluent", f"consumer:{c['consumer']}"] + (["N>10"] if N > 10 else [])
    coords = [f"c{j}" for j in range(N)] if c["labels"] else list(range(N))
    src = fluent.from_source(np.array([_src(i) for i in range(k)], dtype=object), dims=["x"], coords={"x": list(range(k))})
    a = src.map(_gen(N), yields=("y", coords))
    res = a
    if c["consumer"] == "map":
        res = a.map(_inc)
    elif c["consumer"] == "reduce_y":
        res = a.reduce(_tot, dim="y")
    elif c["consumer"] == "reduce_x":
        res = a.reduce(_tot, dim="x")
    try:
        job = graph2job(res.graph())
    except Exception as e:
        raise Violation(f"graph2job raised {type(e).__name__}: {e}", "lowering-raises")
    # topological order straight from the edges
    deps = {t: set() for t in job.tasks}
    for e in job.edges:
        deps[e.sink_task].add(e.source.task)
    order: list[str] = []
    while len(order) < len(deps):
        ready = sorted(t for t in deps if t not in order and deps[t] <= set(order))
        order += ready
    mem, _rep = _run_job(job, order, None, classes)

    def val(x):  # value of one element of a node array
        if hasattr(x, "parent"):
            return mem.store.get(DatasetId(x.parent.name, x.name), "<missing>")
        return mem.store.get(DatasetId(x.name, "0"), "<missing>")

    for i in range(k):
        for j in range(N):
            el = a.nodes.sel(x=i, y=coords[j]).item()
            exp = ("G", ("S", i), j)
            got = val(el)
            if got != exp:
                raise Violation(f"coordinate (x={i}, y={coords[j]!r}) of a generator with {N} yields carries {got!r}, "
                                f"the {j}-th yielded value is {exp!r}", "yield-coordinate")
    if True:
        if c["consumer"] == "map":
            for i in range(k):
                for j in range(N):
                    got = val(res.nodes.sel(x=i, y=coords[j]).item())
                    if got != ("I", ("G", ("S", i), j)):
                        raise Violation(f"map consumer at (x={i}, y={coords[j]!r}) computed {got!r}", "consumer-value")
        elif c["consumer"] == "reduce_y":
            for i in range(k):
                got = val(res.nodes.sel(x=i).item())
                exp = ("R", tuple(("G", ("S", i), j) for j in range(N)))
                if got != exp:
                    raise Violation(f"reduce over y at x={i} computed {got!r} expected {exp!r}", "consumer-value")
        elif c["consumer"] == "reduce_x":
            for j in range(N):
                got = val(res.nodes.sel(y=coords[j]).item())
                exp = ("R", tuple(("G", ("S", i), j) for i in range(k)))
                if got != exp:
                    raise Violation(f"reduce over x at y={coords[j]!r} computed {got!r} expected {exp!r}", "consumer-value")
    return N >= 3 and c["consumer"] != "none", classes


def _rec(*args, **kwargs):
    return ("P", tuple(args), tuple(sorted(kwargs.items())))


_rec.batchable = True


def run_payload(c) -> tuple[bool, list[str]]:
    import functools

    k, stat, kw, ph = c["k"], list(c["statics"]), dict(c["kwargs"]), c["placeholder"]
    classes = ["kind:payload", f"batch:{c['batch']}", "shared_payload" if c["share"] else "separate_payloads", c["order"]]
    use_partial = c["partial"] and ph is None  # a partial carries no placeholders

    def mk():
        if use_partial:
            return fluent.Payload(functools.partial(_rec, *stat, **kw))
        args = list(stat)
        if ph is not None:
            args.insert(ph, "input0")
        return fluent.Payload(_rec, args, dict(kw))

    if any(isinstance(x, str) and x.startswith("input") for x in stat):
        return False, classes  # cannot happen with the statics alphabet; keeps the documented ambiguity out
    src = fluent.from_source(np.array([_src(i) for i in range(k)], dtype=object), dims=["x"], coords={"x": list(range(k))})
    p_map = mk()
    p_red = p_map if c["share"] else mk()
    built = {}
    for what in (["map", "reduce"] if c["order"] == "map_first" else ["reduce", "map"]):
        if what == "map":
            built["map"] = src.map(p_map)
        else:
            built["reduce"] = src.reduce(p_red, dim="x", batch_size=c["batch"])
    if c["second_reduce"]:
        built["reduce2"] = built["map"].reduce(p_red, dim="x", batch_size=0)

    def apply(vals):
        args = list(stat)
        vals = list(vals)
        if ph is not None:
            args.insert(ph, vals[0])
            args += vals[1:]
        else:
            args += vals
        return ("P", tuple(args), tuple(sorted(kw.items())))

    def reduce_ref(vals, b):
        cur = list(vals)
        if 1 < b < len(cur):
            while b < len(cur):
                cur = [apply(cur[i:i + b]) if len(cur[i:i + b]) > 1 else cur[i] for i in range(0, len(cur), b)]
        return apply(cur)

    svals = [("S", i) for i in range(k)]
    expect = {"map": [apply([v]) for v in svals], "reduce": [reduce_ref(svals, c["batch"])]}
    if c["second_reduce"]:
        expect["reduce2"] = [reduce_ref(expect["map"], 0)]
    for what, act in built.items():
        try:
            job = graph2job(act.graph())
        except Exception as e:
            raise Violation(f"graph2job raised {type(e).__name__}: {e}", "lowering-raises")
        deps = {t: set() for t in job.tasks}
        for e in job.edges:
            deps[e.sink_task].add(e.source.task)
        order: list[str] = []
        while len(order) < len(deps):
            order += sorted(t for t in deps if t not in order and deps[t] <= set(order))
        mem, _rep = _run_job(job, order, None, classes)
        got = [mem.store.get(DatasetId(n.name, "0"), "<missing>") for n in act.nodes.data.flatten()]
        if got != expect[what]:
            raise Violation(f"{what} built from a user Payload (statics {stat!r}, placeholder at {ph}, kwargs {kw!r}, "
                            f"{'shared' if c['share'] else 'separate'} object, {c['order']}, batch {c['batch']}): computed {got!r} "
                            f"expected {expect[what]!r}", "payload-value")
    uneven = 1 < c["batch"] < k and k % c["batch"] != 0
    if uneven:
        classes.append("uneven_batches")
    return c["share"] or uneven, classes


def run_case(c):
    if c["kind"] == "payload":
        return run_payload(c)
    return run_hand(c) if c["kind"] == "hand" else run_fluent(c)


def shard(seed: int, cases_n: int, tier: str) -> Stats:
    st_ = Stats()
    common.hyp_run(cases, run_case, st_, seed, cases_n)
    return st_


def replay(case) -> None:
    run_case(case)
