"""C14 — fluent node names identify computations; operations leave operands intact."""

from __future__ import annotations

import functools

import numpy as np
from hypothesis import strategies as st

from .. import common
from ..common import Stats, Violation
from ..fluentmodel import apply_op, build_source, programs
from ..gengraph import walk

from cascade.low.into import graph2job  # noqa: E402
from earthkit.workflows import Cascade, fluent  # noqa: E402
from earthkit.workflows.graph import Graph, deduplicate_nodes, serialise  # noqa: E402

PROPERTY = "C14"
LEVEL = "exploration"
RULE = (
    "cases = (names) pairs of fluent programs (1-3 map/reduce steps each) over one shared source array, steps drawn from a callable "
    "pool built for the quantifier: distinct lambdas, distinct functions with equal __name__ from different factories, one function "
    "with different static positional/keyword arguments, equal static arguments of different type (1, 1.0, '1', True), "
    "functools.partial, library binary operations (add/subtract/multiply/divide, either operand order), stack with axis 0/1/-1 and the "
    "default or a caller-owned keyword dict (pairs differing only in the requested axis must not end in nodes of one name), container "
    "statics that print alike in some notations (tuple / list, int / str keys), one user-owned template Payload whose static argument is "
    "changed in place between uses, one-element NumPy arrays as static arguments (equal copies, values differing below print precision, "
    "the Python float of the same value), programs optionally collapsed to a single node; the union (of two actions, or of one action alone) is taken with Cascade.from_actions, Cascade.__add__ and Graph.__add__ + deduplicate_nodes; "
    "(operands) fluent programs from the C13 generator plus identity/derived transform, with a snapshot (node identities, dims, "
    "coordinate values, attrs) of every pre-existing action before and after each operation. non-trivial = (names) the two programs "
    "differ in exactly one callable or one static argument at the same position; (operands) an operation with a second action whose "
    "coordinate values differ, or a size-1 stack/concatenate, or a transform; distinct = fingerprint of the case"
)
ASSUMPTIONS = [
    "two nodes denote the same computation iff their callables are the same object, their static args/kwargs are equal with equal "
    "types, and their inputs are (recursively) the same computations' same outputs",
    "known finding F6 is matched by its signature only: same-named nodes whose callables differ but share __name__, with equal printed "
    "args/kwargs over equal inputs; any other kind of name clash is reported as a violation",
    "add_attributes is documented to modify the action and is not treated as an operand mutation",
]
TIERS = {
    "quick": {"cases": 2400, "shards": 16},
    "thorough": {"cases": 240000, "shards": 16},
}
MANIFEST = {
    "engine": "structural-oracle",
    "technique": "property-based testing (Hypothesis): generated program pairs with adversarial callable pools, structural identity oracle; before/after snapshots of operands",
    "text": "Generated pairs of fluent programs over shared sources are united (from_actions, +, Graph + with dedup); any two nodes "
            "with one name must be the same computation, rebuilding a program must reproduce its names, serialise must not hit its "
            "uniqueness assertion and lowering must yield one task per distinct computation. Separately every fluent operation is "
            "applied with snapshots of all existing actions taken before and compared after.",
    "note": "Search, not proof. F6 (callables with equal __name__) is a recorded known finding matched by signature.",
}


def _mk_pool():
    lam_a = lambda x: x + 1  # noqa: E731
    lam_b = lambda x: x + 2  # noqa: E731

    def fac1():
        def f(x):
            return x * 2

        return f

    def fac2():
        def f(x):
            return x * 3

        return f

    def g(x, k=0, *rest, s=0):
        return x + k + s

    def ga(x, k=0, *rest, s=0):  # the callable that takes array-valued static arguments
        return x * k + s

    def red(*xs):
        return sum(xs)

    def red2(*xs):
        return max(xs)

    red2.__name__ = "red"
    return {"lam_a": lam_a, "lam_b": lam_b, "fac1": fac1(), "fac2": fac2(), "g": g, "ga": ga, "red": red, "red_other": red2}


POOL = _mk_pool()
STATIC = {"i1": 1, "f1": 1.0, "s1": "1", "b1": True, "i2": 2, "none": None,
          # containers that print alike in some notations: tuple / list, int / str keys
          "t01": (0, 1), "l01": [0, 1], "dk_i": {1: 10}, "dk_s": {"1": 10}, "nest_t": ((0, 1), 2), "nest_l": ([0, 1], 2)}
# one-element weight arrays, given to a callable of their own (the library's union compares payloads with ==; an array against a list
# or an array of several elements has no boolean ==): arr_a and arr_b differ below NumPy's print precision, arr_c prints
# differently, arr_a2 is an equal copy of arr_a, f05 is the Python float of the same value
ARRAYS = {"arr_a": np.array([0.5]), "arr_a2": np.array([0.5]), "arr_b": np.array([0.5 + 1e-10]), "arr_c": np.array([1.5]), "f05": 0.5}

step_st = st.one_of(
    st.tuples(st.just("map"), st.sampled_from(["lam_a", "lam_b", "fac1", "fac2"])).map(list),
    st.tuples(st.just("mapg"), st.sampled_from(sorted(STATIC)), st.sampled_from(["pos", "kw", "partial"])).map(list),
    st.tuples(st.just("mapa"), st.sampled_from(sorted(ARRAYS)), st.sampled_from(["pos", "kw", "partial"])).map(list),
    st.tuples(st.just("reduce"), st.sampled_from(["red", "red_other"])).map(list),
    st.tuples(st.just("yields"), st.sampled_from(["gen"])).map(list),
    st.tuples(st.just("binary"), st.sampled_from(["subtract", "add", "multiply", "divide"]), st.sampled_from(["fwd", "rev"])).map(list),
    st.tuples(st.just("reduce_order"), st.sampled_from(["asc", "desc"])).map(list),
    st.tuples(st.just("stack"), st.sampled_from([0, 1, -1]), st.sampled_from(["default", "own_dict"])).map(list),
    # one template Payload object owned by the "user", its static argument set in place before each use
    st.tuples(st.just("mapt"), st.sampled_from(["i1", "i2", "s1", "t01", "l01"])).map(list),
)


@st.composite
def name_cases(draw):
    shape = [draw(st.integers(1, 2)), draw(st.integers(2, 3))]
    p1 = draw(st.lists(step_st, min_size=1, max_size=3))
    mode = draw(st.sampled_from(["mutate", "mutate", "independent", "same"]))
    if mode == "same":
        p2 = [list(s) for s in p1]
    elif mode == "independent":
        p2 = draw(st.lists(step_st, min_size=1, max_size=3))
    else:
        p2 = [list(s) for s in p1]
        i = draw(st.integers(0, len(p2) - 1))
        s = p2[i]
        if s[0] == "map":
            s[1] = draw(st.sampled_from(["lam_a", "lam_b", "fac1", "fac2"]))
        elif s[0] == "mapg":
            if draw(st.booleans()):
                s[1] = draw(st.sampled_from(sorted(STATIC)))
            else:
                s[2] = draw(st.sampled_from(["pos", "kw", "partial"]))
        elif s[0] == "mapa":
            s[1] = draw(st.sampled_from([k for k in sorted(ARRAYS) if k != s[1]]))
        elif s[0] == "binary":
            if draw(st.booleans()):
                s[2] = "rev" if s[2] == "fwd" else "fwd"  # same operation, same operands, other operand order
            else:
                s[1] = draw(st.sampled_from([o for o in ("subtract", "add", "multiply", "divide") if o != s[1]]))  # other library operation
        elif s[0] == "reduce_order":
            s[1] = "desc" if s[1] == "asc" else "asc"
        elif s[0] == "reduce":
            s[1] = draw(st.sampled_from(["red", "red_other"]))
        elif s[0] == "stack":
            s[1] = draw(st.sampled_from([a for a in (0, 1, -1) if a != s[1]]))  # same operation, other static argument (axis)
        elif s[0] == "mapt":
            s[1] = draw(st.sampled_from([k for k in ("i1", "i2", "s1", "t01", "l01") if k != s[1]]))
    union = draw(st.sampled_from(["from_actions", "add", "graph_add", "single"]))
    # end both programs in a single node (reductions over every dimension): a union with exactly one sink
    collapse = draw(st.booleans()) if union == "single" else draw(st.integers(0, 3)) == 0
    if union == "single" and collapse and draw(st.booleans()):
        # ... whose ancestry writes one sub-expression twice (each binary step builds its second operand anew): distinct node
        # objects under one name inside ONE action, which only the union's de-duplication merges
        ops = draw(st.lists(st.sampled_from(["subtract", "add", "multiply", "divide"]), min_size=2, max_size=2))
        p1 = [["binary", ops[0], "fwd"], ["binary", ops[1], draw(st.sampled_from(["fwd", "rev"]))]] + p1[:2]
    return {"kind": "names", "shape": shape, "p1": p1, "p2": p2, "union": union,
            "lambda_sources": draw(st.booleans()),
            "collapse": collapse}


@st.composite
def operand_cases(draw):
    prog = draw(programs(max_ops=3))
    extra = draw(st.sampled_from([None, None, ["transform_identity", 1], ["transform_identity", 2], ["transform_derived", 2],
                                  ["transform_identity_existing_dim", 1], ["transform_captured_existing_dim", 1],
                                  ["join_scalar_coord", 0], ["join_scalar_coord", 1], ["join_scalar_coord_match", 1]]))
    return {"kind": "operands", "prog": prog, "extra": extra}


cases = st.one_of(name_cases(), operand_cases())


# ---------------------------------------------------------------------------------------------- names

def _src_fn(i):
    def s():
        return i

    s.__name__ = f"s{i}"
    return s


_SRC_FNS = [_src_fn(i) for i in range(6)]
_SRC_LAMBDAS = [(lambda i=i: i) for i in range(6)]  # six different callables, all called <lambda>, no arguments


def _gen(x):
    yield x
    yield x + 1


_TEMPLATE = [None]


def _build_chain(shape, steps, lambda_sources=False, applied=None, caller_kw=None, collapse=False):
    """applied (optional list) receives one bool per step: whether the step was applicable and applied. caller_kw: a dict the
    "user" created once and passes as backend_kwargs to every stack call of the case (steps of style own_dict)."""
    if applied is None:
        applied = []
    n_before = [0]
    payloads = np.empty(shape, dtype=object)
    for n, idx in enumerate(np.ndindex(*shape)):
        payloads[idx] = _SRC_LAMBDAS[n] if lambda_sources else _SRC_FNS[n]
    a = fluent.from_source(payloads, dims=["x", "y"], coords={"x": list(range(shape[0])), "y": list(range(shape[1]))})
    src = a
    for s in steps:
        applied.append(False)
        if s[0] == "stack":
            d = "y" if "y" in a.nodes.dims else None
            if d is None or a.nodes.sizes[d] < 2:
                continue
            # sources return scalars: stacked along the only axis there is, whatever `axis` says (0 and -1 are the same place, 1
            # fails at run time) -- the graph, which is all this check looks at, records the requested axis as a static argument
            a = a.stack(d, axis=s[1]) if s[2] == "default" else a.stack(d, axis=s[1], backend_kwargs=caller_kw if caller_kw is not None else {})
            applied[-1] = True
            continue
        if s[0] == "mapt":
            tpl = _TEMPLATE[0]
            if tpl is None:
                tpl = _TEMPLATE[0] = fluent.Payload(POOL["g"], [fluent.Node.input_name(0), 0])
            tpl.args[1] = STATIC[s[1]]  # the user edits the template in place, then uses it again
            a = a.map(tpl)
            applied[-1] = True
            continue
        if s[0] == "binary":
            # the same binary operation over the same two operands, in either operand order
            other = src.map(POOL["fac1"])
            if tuple(other.nodes.dims) != tuple(a.nodes.dims) or other.nodes.shape != a.nodes.shape:
                continue
            a = getattr(a, s[1])(other) if s[2] == "fwd" else getattr(other, s[1])(a)
        elif s[0] == "reduce_order":
            d = "y" if "y" in a.nodes.dims else None
            if d is None or a.nodes.sizes[d] < 2:
                continue
            sel = a if s[1] == "asc" else a.select({d: list(reversed(list(a.nodes.coords[d].values)))})
            a = sel.reduce(POOL["red"], dim=d)
        elif s[0] == "map":
            a = a.map(POOL[s[1]])
        elif s[0] in ("mapg", "mapa"):
            v = STATIC[s[1]] if s[0] == "mapg" else ARRAYS[s[1]]
            fn = POOL["g"] if s[0] == "mapg" else POOL["ga"]
            if s[2] == "pos":
                a = a.map(fluent.Payload(fn, [fluent.Node.input_name(0), v]))
            elif s[2] == "kw":
                a = a.map(fluent.Payload(fn, [fluent.Node.input_name(0)], {"k": v}))
            else:
                a = a.map(functools.partial(fn, s=v))
        elif s[0] == "yields":
            if "g" in a.nodes.dims:
                continue
            a = a.map(_gen, yields=("g", [0, 1]))
        elif s[0] == "reduce":
            d = "y" if "y" in a.nodes.dims else ("x" if "x" in a.nodes.dims else None)
            if d is None or a.nodes.sizes[d] < 2:
                continue
            a = a.reduce(POOL[s[1]], dim=d)
        applied[-1] = True
    if collapse:
        for d in list(a.nodes.dims):
            a = a.reduce(POOL["red"], dim=str(d))
    return a


def _val(a, value_eq):
    if value_eq and isinstance(a, (bool, int, float)):
        return ("num", float(a))
    if value_eq and isinstance(a, np.ndarray) and a.size == 1:
        return ("num", float(a.reshape(-1)[0]))  # Python's == on payloads: array([0.5]) == 0.5
    if isinstance(a, np.ndarray):  # repr() of an array is a summary: compare the data
        return ("ndarray", a.dtype.str, a.shape, a.tobytes().hex())
    return (type(a).__name__, repr(a))


def _ident(node, memo, value_eq: bool = False):
    """Structural identity of a computation: (id of callable, statics, inputs' identities). Statics are compared with their
    type unless value_eq (then 1 == 1.0 == True, as Python's == on payloads has it)."""
    k = id(node)
    if k in memo:
        return memo[k]
    func, args, kwargs = node.payload
    ins = tuple(sorted((n, _ident(src.parent, memo, value_eq), src.name) for n, src in node.inputs.items()))
    r = (id(func), tuple(_val(a, value_eq) for a in args), tuple(sorted((kk,) + _val(v, value_eq) for kk, v in kwargs.items())),
         tuple(node.outputs), ins)
    memo[k] = r
    return r


def _only_arrays_differ(a1, k1, a2, k2) -> bool:
    """The static arguments differ, and every differing position holds two ndarrays (which then print alike: the caller has
    compared the printed forms)."""
    if len(a1) != len(a2) or sorted(k1) != sorted(k2):
        return False
    pairs = list(zip(a1, a2)) + [(k1[k], k2[k]) for k in k1]
    differing = [(x, y) for x, y in pairs if _val(x, False) != _val(y, False)]
    return bool(differing) and all(isinstance(x, np.ndarray) and isinstance(y, np.ndarray) for x, y in differing)


def _kf_signature(n1, n2, memo, used: set) -> bool:
    """True iff the clash between two same-named nodes is explained by recorded known findings, whose ids are added to `used`:
    F6 -- at this node or at ancestors the only difference is a pair of distinct user callables with equal __name__;
    F40 -- ... the only difference is ndarray static arguments that differ in value and print alike
    (printed args/kwargs and input wiring by name being equal in both)."""
    f1, a1, k1 = n1.payload
    f2, a2, k2 = n2.payload
    if getattr(f1, "__name__", "") != getattr(f2, "__name__", ""):
        return False
    if f1 is not f2 and str(getattr(f1, "__module__", "")).startswith("earthkit.workflows") \
            and str(getattr(f2, "__module__", "")).startswith("earthkit.workflows"):
        # F6 is about callables the USER supplies (lambdas, functions of equal __name__); two different operations of the library
        # itself ending up under one name is not that finding
        return False
    if str(a1) != str(a2) or str(k1) != str(k2) or list(n1.outputs) != list(n2.outputs):
        return False
    i1 = [(n, s.parent.name, s.name) for n, s in sorted(n1.inputs.items())]
    i2 = [(n, s.parent.name, s.name) for n, s in sorted(n2.inputs.items())]
    if i1 != i2:
        return False
    # source nodes are disambiguated by from_source (index suffix): a clash between sources is not F6
    explained = (f1 is not f2) and bool(n1.inputs)
    if f1 is not f2 and not n1.inputs:
        return False
    if explained:
        used.add("F6")
    statics_differ = (tuple(_val(a, False) for a in a1), sorted((k,) + _val(v, False) for k, v in k1.items())) != \
        (tuple(_val(a, False) for a in a2), sorted((k,) + _val(v, False) for k, v in k2.items()))
    if statics_differ:
        # printed forms are equal (checked above) yet the values differ: F40 if only arrays differ, unexplained otherwise
        if not _only_arrays_differ(a1, k1, a2, k2) or not n1.inputs:
            return False
        used.add("F40")
        explained = True
    for n in n1.inputs:
        p1, p2 = n1.inputs[n].parent, n2.inputs[n].parent
        if _ident(p1, memo) != _ident(p2, memo):
            if not _kf_signature(p1, p2, memo, used):
                return False
            explained = True
    return explained


def run_names(c, stats: Stats | None) -> tuple[bool, list[str]]:
    classes = ["kind:names", "union:" + c["union"]]
    ls = bool(c.get("lambda_sources"))
    caller_kw: dict = {}  # the user's own (empty) keyword dict, handed to every stack call of style own_dict
    ap1: list = []
    ap2: list = []
    _TEMPLATE[0] = None  # one template Payload per case, shared by everything the case builds
    col = bool(c.get("collapse"))
    a1 = _build_chain(c["shape"], c["p1"], ls, ap1, caller_kw, col)
    a2 = _build_chain(c["shape"], c["p2"], ls, ap2, caller_kw, col)
    # building the same program twice gives the same names
    a1b = _build_chain(c["shape"], c["p1"], ls, None, caller_kw, col)
    n1 = [getattr(x, "name", None) if not hasattr(x, "parent") else (x.parent.name, x.name) for x in a1.nodes.values.flatten()]
    n1b = [getattr(x, "name", None) if not hasattr(x, "parent") else (x.parent.name, x.name) for x in a1b.nodes.values.flatten()]
    if n1 != n1b:
        raise Violation(f"building program {c['p1']} twice gave different node names", "names-not-reproducible")
    # two programs that REQUEST different computations must not end in nodes of the same name: they differ in exactly one step, a
    # stack whose static argument `axis` is another one, applied in both, and everything downstream consumes it. (For the other
    # step kinds the as-built payloads tell the difference and the clause below judges them; here the requested axis is compared,
    # because a stack call that records another axis than the one it was given would make the as-built payloads agree)
    if len(c["p1"]) == len(c["p2"]):
        diff = [i for i, (s1, s2) in enumerate(zip(c["p1"], c["p2"])) if s1 != s2]
        if len(diff) == 1 and c["p1"][diff[0]][0] == "stack" and c["p1"][diff[0]][1] != c["p2"][diff[0]][1] \
                and ap1[diff[0]] and ap2[diff[0]] and ap1 == ap2:
            def _names(a):
                return {x.name if not hasattr(x, "parent") else x.parent.name for x in a.nodes.values.flatten()}

            common_names = _names(a1) & _names(a2)
            if common_names:
                raise Violation(f"programs {c['p1']} and {c['p2']} request different computations (step {diff[0]} differs) but end in "
                                f"nodes of the same name {sorted(common_names)[:2]}", "different-requests-same-name")
            classes.append("requested_difference_checked")
    # same name => same computation, over both programs
    memo: dict = {}
    by_name: dict[str, list] = {}
    for n in walk(Graph(list(a1.graph().sinks) + list(a2.graph().sinks))):
        by_name.setdefault(n.name, []).append(n)
    clash_known = False
    clash_kinds: set = set()
    for name, group in by_name.items():
        idents = {}
        for n in group:
            idents.setdefault(_ident(n, memo), n)
        if len(idents) > 1:
            reps = list(idents.values())
            used: set = set()
            if all(_kf_signature(reps[0], r, memo, used) for r in reps[1:]) and used and stats is not None \
                    and all(common.known_findings().listed(PROPERTY, f) for f in used):
                for f in sorted(used):
                    common.known(stats, PROPERTY, f)
                    clash_kinds.add(f)
                clash_known = True
                continue
            f = [r.payload[0] for r in reps]
            raise Violation(f"name {name!r} is carried by {len(idents)} different computations: callables {f}, args "
                            f"{[r.payload[1] for r in reps]}, kwargs {[r.payload[2] for r in reps]}", "name-clash")
    # the union de-duplicates with Python equality on payloads (1 == 1.0 == True): count distinct computations the same way
    memo_eq: dict = {}
    distinct = {_ident(n, memo_eq, value_eq=True) for group in by_name.values() for n in group}
    # union
    try:
        if c["union"] == "single":
            # one action alone (its ancestry may build one sub-expression several times: distinct node objects, one name)
            g = Cascade.from_actions([a1])._graph
            memo_s: dict = {}
            distinct = {_ident(n, memo_s, value_eq=True) for n in walk(Graph(list(a1.graph().sinks)))}
        elif c["union"] == "from_actions":
            g = Cascade.from_actions([a1, a2])._graph
        elif c["union"] == "add":
            g = (Cascade(a1.graph()) + Cascade(a2.graph()))._graph
        else:
            g = deduplicate_nodes(a1.graph() + a2.graph())
    except Exception as e:
        raise Violation(f"taking the union raised {type(e).__name__}: {e}", "union-raises")
    if not clash_known:
        try:
            ser = serialise(g)
        except AssertionError:
            raise Violation("serialise(union) hit its uniqueness assertion", "serialise-assert")
        try:
            job = graph2job(g)
        except Exception as e:
            raise Violation(f"graph2job(union) raised {type(e).__name__}: {e}", "lowering-raises")
        if len(job.tasks) != len(distinct) or len(ser) != len(distinct):
            raise Violation(f"union has {len(distinct)} distinct computations but lowers to {len(job.tasks)} tasks "
                            f"({len(ser)} serialised nodes)", "task-count")
    else:
        classes.extend(f"known_{f}_clash" for f in sorted(clash_kinds))
    differ = sum(1 for s, t in zip(c["p1"], c["p2"]) if s != t) if len(c["p1"]) == len(c["p2"]) else -1
    if differ == 1:
        classes.append("differ_in_exactly_one_step")
    if c["p1"] == c["p2"]:
        classes.append("identical_programs")
    return differ == 1, classes


# ---------------------------------------------------------------------------------------------- operands

def _snap(action):
    nodes = action.nodes
    return {
        "obj": id(nodes.values) if False else None,
        "ids": [id(x) if not hasattr(x, "parent") else (id(x.parent), x.name) for x in nodes.values.flatten()],
        "shape": tuple(nodes.shape),
        "dims": tuple(str(d) for d in nodes.dims),
        "coords": {str(k): [str(v) for v in np.atleast_1d(nodes.coords[k].values)] for k in nodes.coords},
        "attrs": dict(nodes.attrs),
    }


def _same_snap(before, after):
    for k in ("ids", "shape", "dims", "coords", "attrs"):
        if before[k] != after[k]:
            return k
    return None


_key = [10_000_000]


def run_operands(c) -> tuple[bool, list[str]]:
    prog = c["prog"]
    _key[0] += 1
    a, m = build_source(prog["src"], _key[0])
    classes = ["kind:operands"]
    existing: list = [(a, _snap(a), "source")]
    nt = False

    def check(step):
        for act, snap, label in existing:
            d = _same_snap(snap, _snap(act))
            if d is not None:
                raise Violation(f"operation {step} changed the {d} of an existing action ({label}): before {snap[d]} after {_snap(act)[d]}",
                                "operand-mutated")

    others: list = []
    hooks = {"before_binary": lambda x, o: others.append((o, _snap(o), "other operand")),
             "after_binary": lambda x, o: None}
    for i, op in enumerate(prog["ops"], 1):
        try:
            a2, m, tags = apply_op(a, m, op, prog["src"]["xr"], hooks)
        except Violation:
            raise
        except Exception as e:
            # C13 owns the question whether the operation itself works; here only operand integrity matters -- also when it raises
            for o in others:
                existing.append(o)
            check(op)
            return False, classes + ["op_raised_elsewhere"]
        for o in others:
            existing.append(o)
        others.clear()
        check(op)
        if a2 is not a:
            existing.append((a2, _snap(a2), f"result of step {i}"))
        classes += [t for t in tags if t in ("coords_differ", "size1_noop", "transform", "broadcast", "join_new", "arith_action")]
        if "coords_differ" in tags or "size1_noop" in tags or "transform" in tags:
            nt = True
        a = a2
    ex = c["extra"]
    if ex is not None:
        k, n = ex
        params = [(j,) for j in range(n)]
        ones = [str(d) for d in a.nodes.dims if a.nodes.sizes[d] == 1]
        dname = ones[0] if (ones and k.endswith("existing_dim")) else "tdim"
        captured = a
        if k.startswith("join_scalar_coord"):
            # two selections that both keep the selected coordinate as a scalar coordinate (select's default drop=False), with equal
            # (n == 0) or different (n == 1) values, joined along a new dimension -- directly, or with match_coord_values
            lab = [str(d) for d in a.nodes.dims if str(d) in a.nodes.coords and a.nodes.sizes[d] >= 2]
            if not lab:
                return nt, classes + ["extra_not_applicable"]
            vals = list(a.nodes.coords[lab[0]].values)
            a1 = a.select({lab[0]: vals[0]})
            a2 = a.select({lab[0]: vals[n]})
            existing.append((a1, _snap(a1), "first selection"))
            existing.append((a2, _snap(a2), "second selection (operand of join)"))
            try:
                res = a1.join(a2, "jdim", match_coord_values=k.endswith("match"))
                classes.append(k + ":joined")
            except Exception:
                classes.append(k + ":raised")  # xarray refuses conflicting scalar coordinates; the operands must be intact all the same
            check(ex)
            return True, sorted(set(classes))
        try:
            if k == "transform_identity_existing_dim":
                res = a.transform(lambda act, j: act, params, dname)
            elif k == "transform_captured_existing_dim":
                res = a.map(_addk_one).transform(lambda act, j: captured, params, dname)
            elif k == "transform_identity":
                res = a.transform(lambda act, j: act, params, "tdim")
            else:
                res = a.transform(lambda act, j: act.map(fluent.Payload(_addk, [fluent.Node.input_name(0), j])), params, "tdim")
        except Exception:
            check(ex)
            return nt, classes + ["extra_raised"]
        check(ex)
        classes.append(k)
        nt = True
        del res
    return nt, sorted(set(classes))


def _addk(x, k):
    return x + k


def _addk_one(x):
    return x + 1


def shard(seed: int, cases_n: int, tier: str) -> Stats:
    st_ = Stats()

    def body(c):
        if c["kind"] == "names":
            return run_names(c, st_)
        return run_operands(c)

    common.hyp_run(cases, body, st_, seed, cases_n)
    return st_


def replay(case) -> None:
    st_ = Stats()
    if case["kind"] == "names":
        run_names(case, st_)
    else:
        run_operands(case)
