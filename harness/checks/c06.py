"""C06 — acknowledged messaging delivers each message exactly once despite loss or duplication.

Three generated families:
 loop   : the real Bridge (built through its registration handshake) and the real Executor.recv_loop (object built without child
          processes) as lock-step coroutines over an in-memory network whose every Syn-framed transmission and every Ack gets a
          generated fate (deliver / drop / duplicate / hold and deliver later), with generated interleaving and timeouts;
 giveup : a ReliableSender whose every transmission of one message is dropped must raise within the retry budget;
 frames : arbitrary multipart frame lists fed to Listener._recv_one must raise or yield exactly what the framing grammar denotes.
"""

from __future__ import annotations

import pickle

from hypothesis import strategies as st

from .. import common, fakezmq
from ..common import Chooser, Stats, Violation
from ..lockstep import Coroutine, current

import cascade.executor.bridge as bridge_mod  # noqa: E402
import cascade.executor.comms as comms  # noqa: E402
import cascade.executor.executor as executor_mod  # noqa: E402
import cascade.executor.serde as serde  # noqa: E402
from cascade.executor.msg import (  # noqa: E402
    Ack,
    DatasetPublished,
    DatasetPurge,
    DatasetTransmitPayload,
    DatasetTransmitPayloadHeader,
    ExecutorRegistration,
    Syn,
    TaskSequence,
    Worker,
)
from cascade.low.core import DatasetId, JobInstance, WorkerId  # noqa: E402

PROPERTY = "C06"
LEVEL = "exploration"
RULE = (
    "cases = (loop) 1-12 application sends in both directions between the real Bridge and 1-2 real Executor receive loops, with a "
    "generated fate for every Syn-framed transmission and every Ack (deliver, drop, duplicate, hold past later traffic), generated "
    "interleaving of endpoint turns and timeouts on a virtual clock; fairness: at most 2 drops per message/ack and no transmission "
    "held longer than 3 timeouts; then a loss-free drain. Oracle: nothing is delivered to an application that was not sent, nothing "
    "twice, at quiescence delivered == sent in both directions and nothing is in flight, and no endpoint raises. (giveup) every "
    "transmission of one message dropped: maybe_retry must raise within max_retries_per_message retries and must not forget the "
    "message earlier. (frames) generated frame lists (pickles of Syn/Ack/header/messages, raw bytes, wrong arity) through "
    "Listener._recv_one: raises, or returns exactly what [msg] | [Syn,msg] | [hdr,val] | [Syn,hdr,val] denotes; a repeated Syn "
    "yields nothing. A fifth of the sends repeat the previous content as a message of its own (equal payloads in flight). "
    "(shutdown) the real Bridge.shutdown run as a coroutine against idealised executors under generated loss of the four kinds of "
    "frame it exchanges: every executor must receive its ExecutorShutdown exactly once (re-sent while unacknowledged) or the call must "
    "give up loudly. non-trivial = >=1 dropped data transmission and >=1 dropped or duplicated ack with traffic in both directions "
    "(loop), or any giveup/frames case with >=2 frames; distinct = fingerprint of the case and its decision log"
)
ASSUMPTIONS = [
    "whole multipart messages are the unit of loss (zmq delivers multipart messages atomically)",
    "only Syn-framed messages and Acks are subject to faults; un-framed callback messages are host-local by the code's own contract",
    "real zmq semantics (HWM, reconnects, LINGER) are not modelled; a restarted sender re-using (idx, addr) is outside the statement",
    "the executor object is built without child processes (workers/data server/shm are stand-ins); its receive loop is the real code",
]
TIERS = {
    "quick": {"cases": 2400, "shards": 16},
    "thorough": {"cases": 240000, "shards": 16},
}
MANIFEST = {
    "engine": "fakenet",
    "technique": "fault-injection property testing: generated drop/duplicate/delay fates and schedules under the real Bridge and Executor receive loops; grammar-based frame fuzzing of the Listener",
    "text": "The real acknowledged-send layer (Listener, ReliableSender, the Bridge's and the Executor's receive loops) runs over an "
            "in-memory network that applies a generated fate to every framed transmission and acknowledgement; delivered and sent "
            "multisets are compared during the run (no invention, no duplication) and after a loss-free drain (exactly once, nothing "
            "in flight). A total blackout must end in the documented bounded give-up. Malformed frame sequences must be rejected.",
    "note": "Search, not proof. Virtual clock; real sockets only in C05.",
}

CTRL = "tcp://ctrl:1"


class _Stop(BaseException):
    pass


class _FakeProc:
    exitcode = None
    pid = 0

    def is_alive(self):
        return False

    def join(self, *a):
        pass

    def kill(self):
        pass


def _mk_executor(host: str, nworkers: int) -> "executor_mod.Executor":
    ex = object.__new__(executor_mod.Executor)
    ex.job_instance = JobInstance(tasks={}, edges=[])
    ex.param_source = {}
    ex.controller_address = CTRL
    ex.host = host
    ex.workers = {WorkerId(host, f"w{i}"): _FakeProc() for i in range(nworkers)}
    ex.datasets = set()
    ex.heartbeat_watcher = comms.GraceWatcher(grace_ms=executor_mod.heartbeat_grace_ms)
    ex.terminating = False
    ex.mlistener = comms.Listener(f"tcp://{host}:1")
    ex.sender = comms.ReliableSender(ex.mlistener.address, bridge_mod.resend_grace_ms)
    ex.sender.add_host("controller", CTRL)
    ex.shm_process = _FakeProc()
    ex.data_server = _FakeProc()
    ex.daddress = f"tcp://{host}:2"
    ex.registration = ExecutorRegistration(host=host, maddress=ex.mlistener.address, daddress=ex.daddress,
                                           workers=[Worker(worker_id=w, cpu=1, gpu=0, memory_mb=1) for w in ex.workers])
    return ex


@st.composite
def loop_cases(draw):
    nexec = draw(st.integers(1, 2))
    sends = []
    for i in range(draw(st.integers(1, 12))):
        d = draw(st.sampled_from(["c2e", "e2c"]))
        sends.append([d, draw(st.integers(0, nexec - 1))])
        if draw(st.integers(0, 4)) == 0:
            # the same content once more, as a message of its own (two sends are two messages, whatever they carry)
            sends.append([d, sends[-1][1], "same"])
    return {"family": "loop", "nexec": nexec, "sends": sends, "decisions": draw(st.lists(st.integers(0, 1 << 16), max_size=150)),
            "tail": draw(st.integers(0, 1 << 30))}


@st.composite
def giveup_cases(draw):
    return {"family": "giveup", "before": draw(st.integers(0, 3)), "acked": draw(st.lists(st.booleans(), min_size=0, max_size=3)),
            "tick_ms": draw(st.sampled_from([400, 801, 1200, 5000]))}


_frame = st.one_of(
    st.tuples(st.just("syn"), st.integers(0, 3)), st.tuples(st.just("ack"), st.integers(0, 3)),
    st.tuples(st.just("hdr"), st.integers(0, 3)), st.tuples(st.just("msg"), st.integers(0, 3)),
    st.tuples(st.just("raw"), st.binary(max_size=6)), st.tuples(st.just("val"), st.binary(max_size=6)),
).map(list)


@st.composite
def frame_cases(draw):
    grammar = draw(st.booleans())
    if grammar:
        shape = draw(st.sampled_from([["msg"], ["syn", "msg"], ["hdr", "val"], ["syn", "hdr", "val"], ["syn", "ack"], ["ack"]]))
        frames = [[k, draw(st.binary(max_size=6)) if k in ("val", "raw") else draw(st.integers(0, 3))] for k in shape]
    else:
        frames = draw(st.lists(_frame, min_size=0, max_size=4))
    return {"family": "frames", "first": frames, "repeat": draw(st.booleans())}


@st.composite
def shutdown_cases(draw):
    # which transmissions of the shutdown exchange are lost: per host up to two of the first copies of the controller's
    # ExecutorShutdown, of the executor's ExecutorExit, and of either acknowledgement (fair loss: a third copy always gets through)
    nexec = draw(st.integers(1, 2))
    return {"family": "shutdown", "nexec": nexec,
            "drops": [[draw(st.integers(0, 2)) for _ in range(4)] for _ in range(nexec)]}


cases = st.one_of(loop_cases(), loop_cases(), loop_cases(), giveup_cases(), frame_cases(), shutdown_cases())


# ---------------------------------------------------------------------------------------------------- loop

def _framed(frames) -> str | None:
    """'data' for a Syn-framed message, 'ack' for an Ack, None for an un-framed (host-local) message."""
    try:
        m0 = serde.des_message(frames[0])
    except Exception:
        return None
    if isinstance(m0, Syn):
        return "data"
    if isinstance(m0, Ack) and len(frames) == 1:
        return "ack"
    return None


def _pending(sender) -> list:
    """Unacknowledged application messages (heartbeat registrations are re-issued for ever and are not part of the history)."""
    return [r for r in sender.inflight.values() if r.clazz != "ExecutorRegistration"]


def run_loop(c, holder) -> tuple[bool, list[str], object]:
    net = fakezmq.Net()
    net.mode = "held"
    net.reliable = lambda addr, frames: _framed(frames) is None
    ch = Chooser(prefix=c.get("log") or c["decisions"], tail_seed=None if c.get("log") else c["tail"])
    holder["log"] = ch.log
    stats = {"drop_data": 0, "drop_ack": 0, "dup_data": 0, "dup_ack": 0, "held": 0, "ticks": 0, "c2e": 0, "e2c": 0}
    sent: dict[str, list] = {}
    delivered: dict[str, list] = {}
    errors: list[str] = []

    def on_idle(poller, timeout):
        co = current()
        if co is None:
            return  # driver thread (e.g. Bridge construction): behave like a timeout
        co.park()
        if net_stop[0]:
            raise _Stop()

    net_stop = [False]
    with fakezmq.patched(net, modules=[]):
        old_time = bridge_mod.time
        bridge_mod.time = net
        try:
            execs = [_mk_executor(f"h{i}", 2) for i in range(c["nexec"])]
            for ex in execs:
                net.mode = "immediate"
                ex.to_controller(ex.registration)
            try:
                br = bridge_mod.Bridge(CTRL, len(execs))
            except Exception as e:
                raise Violation(f"loss-free registration handshake of {len(execs)} executors failed: {type(e).__name__}: {e}", "handshake")
            net.mode = "held"
            net.on_idle = on_idle

            def wrap_listener(name, lis):
                orig = lis.recv_messages

                def rec(timeout_ms=comms.default_timeout_ms):
                    ms = orig(timeout_ms)
                    for m in ms:
                        if not isinstance(m, Ack):
                            delivered.setdefault(name, []).append(m)
                    return ms

                lis.recv_messages = rec

            def wrap_sender(name, snd):
                orig = snd.send

                def rec(host, m):
                    sent.setdefault(f"{name}>{host}", []).append(m)
                    orig(host, m)

                snd.send = rec

            wrap_listener("ctrl", br.mlistener)
            wrap_sender("ctrl", br.sender)
            for ex in execs:
                wrap_listener(ex.host, ex.mlistener)
                wrap_sender(ex.host, ex.sender)
                orig_hc = ex.healthcheck
            # coroutines
            events_out: list = []

            def ctrl_loop():
                while True:
                    events_out.extend(br.recv_events())

            cos = {"ctrl": Coroutine(ctrl_loop, "ctrl")}
            for ex in execs:
                cos[ex.host] = Coroutine(ex.recv_loop, ex.host)
            for co in cos.values():
                co.resume()  # run to the first poll
            # consume the acks of the registrations (still in the executors' inboxes) -- part of normal operation
            drops: dict = {}
            age: dict[int, int] = {}
            pending_sends = list(c["sends"])
            uid = [0]

            def do_send(d, ei, same=None):
                ex = execs[ei % len(execs)]
                if same is None or uid[0] == 0:
                    uid[0] += 1
                else:
                    stats["equal_content_resent"] = stats.get("equal_content_resent", 0) + 1
                if d == "c2e":
                    stats["c2e"] += 1
                    br.task_sequence(TaskSequence(worker=WorkerId(ex.host, "w0"), tasks=[f"t{uid[0]}"], publish=set()))
                else:
                    stats["e2c"] += 1
                    # a worker-side publication reaches its executor un-framed (local, loss-free); the executor forwards it reliably
                    comms.callback(ex.mlistener.address, DatasetPublished(origin=WorkerId(ex.host, "w0"), ds=DatasetId(f"d{uid[0]}", "0"),
                                                                        transmit_idx=None))

            def fate_key(m):
                kind = _framed(m["frames"])
                m0 = serde.des_message(m["frames"][0])
                return (kind, m["dst"], m0.idx, getattr(m0, "addr", ""))

            def check_safety():
                for name, got in delivered.items():
                    src = [m for k, ms in sent.items() if k.split(">")[1] in (name, "controller" if name == "ctrl" else name) for m in ms]
                    # what may legitimately arrive at `name`: everything sent to it by a reliable sender, plus local un-framed messages
                    for m in got:
                        if isinstance(m, (TaskSequence,)) or (isinstance(m, DatasetPublished) and name == "ctrl") or \
                                isinstance(m, ExecutorRegistration):
                            n_sent = sum(1 for x in src if x == m)
                            n_got = sum(1 for x in got if x == m)
                            if n_got > n_sent:
                                raise Violation(f"endpoint {name} was handed {m!r} {n_got} times, it was sent {n_sent} times", "duplicate-or-invented")

            steps = 0
            while steps < 400:
                steps += 1
                options = []
                for i, m in enumerate(net.inflight):
                    options.append(("net", i))
                for name, co in cos.items():
                    if not co.done:
                        options.append(("turn", name))
                if pending_sends:
                    options.append(("send",))
                if not pending_sends and not net.inflight and steps > 5 and ch.choose(4) == 0:
                    break
                # fairness: a transmission held for 6 timeouts must be delivered now
                forced = [i for i, m in enumerate(net.inflight) if age.get(m["seq"], 0) >= 3]
                if forced:
                    opt = ("net-deliver", forced[0])
                else:
                    opt = options[ch.choose(len(options))]
                if opt[0] == "send":
                    do_send(*pending_sends.pop(0))
                elif opt[0] in ("net", "net-deliver"):
                    i = opt[1]
                    m = net.inflight[i]
                    kind = _framed(m["frames"])
                    fk = fate_key(m)
                    fate = 0 if opt[0] == "net-deliver" else ch.choose(4)
                    if fate == 1 and drops.get(fk, 0) >= 2:
                        fate = 0
                    if fate == 0:
                        net.deliver(i)
                    elif fate == 1:
                        drops[fk] = drops.get(fk, 0) + 1
                        stats["drop_" + kind] += 1
                        net.drop(i)
                    elif fate == 2:
                        if not m.get("dup"):
                            stats["dup_" + kind] += 1
                            net.duplicate(i)
                        net.deliver(i)
                    else:
                        stats["held"] += 1  # leave it in flight
                else:
                    name = opt[1]
                    co = cos[name]
                    empty = not net.inbox.get(CTRL if name == "ctrl" else f"tcp://{name}:1")
                    if empty:
                        stats["ticks"] += 1
                        for m in net.inflight:
                            age[m["seq"]] = age.get(m["seq"], 0) + 1
                    co.resume()
                    if co.done and not isinstance(co.exc, _Stop):
                        raise Violation(f"endpoint {name} stopped: {type(co.exc).__name__}: {co.exc}", "endpoint-raised")
                    if name != "ctrl" and execs[[e.host for e in execs].index(name)].terminating:
                        raise Violation(f"executor {name} gave up (ExecutorFailure) under fair loss", "endpoint-raised")
                check_safety()
            # loss-free drain
            for snd_ in pending_sends:
                do_send(*snd_)
            for _round in range(200):
                while net.inflight:
                    net.deliver(0)
                busy = False
                for name, co in cos.items():
                    if co.done:
                        continue
                    co.resume()
                    if co.done and not isinstance(co.exc, _Stop):
                        raise Violation(f"endpoint {name} stopped during the drain: {type(co.exc).__name__}: {co.exc}", "endpoint-raised")
                if net.inflight or br.sender.inflight or any(_pending(ex.sender) for ex in execs):
                    busy = True
                if not busy and _round > 2:
                    break
            check_safety()
            # exactly once at quiescence
            for ex in execs:
                want = [m for m in sent.get(f"ctrl>{ex.host}", [])]
                got = [m for m in delivered.get(ex.host, []) if isinstance(m, TaskSequence)]
                if sorted(map(repr, want)) != sorted(map(repr, got)):
                    raise Violation(f"controller sent {len(want)} messages to {ex.host}, its application was handed {len(got)} "
                                    f"(missing {[m for m in want if m not in got][:2]})", "not-exactly-once")
                want = [m for m in sent.get(f"{ex.host}>controller", []) if isinstance(m, DatasetPublished)]
                got = [m for m in delivered.get("ctrl", []) if isinstance(m, DatasetPublished) and m.origin.host == ex.host]
                if sorted(map(repr, want)) != sorted(map(repr, got)):
                    raise Violation(f"{ex.host} sent {len(want)} publications to the controller, the controller's application was handed "
                                    f"{len(got)} (missing {[m for m in want if m not in got][:2]})", "not-exactly-once")
                if len(want) != sum(1 for d, ei, *_same in c["sends"] if d == "e2c" and execs[ei % len(execs)] is ex):
                    raise Violation(f"{ex.host}: {len(want)} publications entered the acknowledged-send layer, expected "
                                    f"{sum(1 for d, ei in c['sends'] if d == 'e2c' and execs[ei % len(execs)] is ex)}", "not-forwarded")
            if br.sender.inflight or any(_pending(ex.sender) for ex in execs):
                raise Violation("after a loss-free drain the senders still have unacknowledged messages in flight", "inflight-not-empty")
            if sorted(map(repr, events_out)) != sorted(repr(m) for m in delivered.get("ctrl", []) if isinstance(m, DatasetPublished)):
                raise Violation("events returned by Bridge.recv_events differ from the publications delivered to it", "events-lost")
        finally:
            net_stop[0] = True
            try:
                for ex in locals().get("execs", []):
                    ex.terminating = True
                for co in locals().get("cos", {}).values():
                    if not co.done and co.started:
                        co.resume()
            finally:
                bridge_mod.time = old_time
    nt = stats["drop_data"] >= 1 and (stats["drop_ack"] + stats["dup_ack"]) >= 1 and stats["c2e"] >= 1 and stats["e2c"] >= 1
    tags = ["family:loop"] + [k for k, v in stats.items() if v and k not in ("c2e", "e2c")]
    return nt, tags, common.fingerprint(ch.log)


# ---------------------------------------------------------------------------------------------------- giveup

def run_giveup(c) -> tuple[bool, list[str]]:
    net = fakezmq.Net()
    net.mode = "held"
    with fakezmq.patched(net):
        snd = comms.ReliableSender("tcp://tx:1", 800)
        snd.add_host("h", "tcp://rx:1")
        for i in range(c["before"]):
            snd.send("h", DatasetPurge(ds=DatasetId(f"x{i}", "0")))
        victim_idx = snd.idx
        snd.send("h", DatasetPurge(ds=DatasetId("victim", "0")))
        for j, a in enumerate(c["acked"]):
            if a and j < c["before"]:
                snd.ack(j)
        net.inflight.clear()  # blackout: nothing ever arrives
        raised_at = None
        retries = 0
        for tick in range(200):
            net.advance_ms(c["tick_ms"])
            before = len(net.inflight)
            try:
                snd.maybe_retry()
            except ValueError:
                raised_at = tick
                break
            retries += sum(1 for m in net.inflight[before:] if serde.des_message(m["frames"][0]).idx == victim_idx)
            net.inflight.clear()
            if victim_idx not in snd.inflight:
                raise Violation(f"the sender forgot unacknowledged message {victim_idx} after {retries} retries without raising", "silently-dropped")
        if raised_at is None:
            raise Violation(f"200 timeouts ({c['tick_ms']} ms each) of total loss: the sender retried {retries} times and never gave up", "never-gives-up")
        if retries > comms.max_retries_per_message:
            raise Violation(f"{retries} retries before giving up (budget {comms.max_retries_per_message})", "retry-budget")
    return True, ["family:giveup"]


# ---------------------------------------------------------------------------------------------------- shutdown

def run_shutdown(c) -> tuple[bool, list[str]]:
    """The controller's last messages are messages too: Bridge.shutdown hands an ExecutorShutdown per host to the acknowledged
    layer and waits for the executors' ExecutorExit. Under fair loss every executor must get its shutdown exactly once and the
    bridge must see every exit. The executor side is idealised here (a loop over the real Listener / ReliableSender that keeps
    retrying until acknowledged); the controller side is the real Bridge.shutdown, run as a lock-step coroutine."""
    from cascade.executor.msg import ExecutorExit, ExecutorShutdown

    net = fakezmq.Net()
    net.mode = "held"
    net.reliable = lambda addr, frames: _framed(frames) is None

    def on_idle(poller, timeout):
        co = current()
        if co is None:
            return
        co.park()

    with fakezmq.patched(net, modules=[]):
        old_time = bridge_mod.time
        bridge_mod.time = net
        try:
            execs = [_mk_executor(f"h{i}", 1) for i in range(c["nexec"])]
            for ex in execs:
                net.mode = "immediate"
                ex.to_controller(ex.registration)
            try:
                br = bridge_mod.Bridge(CTRL, len(execs))
            except Exception as e:
                raise Violation(f"loss-free registration handshake failed: {type(e).__name__}: {e}", "handshake")
            for ex in execs:  # consume the acks of the registrations
                for m in ex.mlistener.recv_messages(0):
                    if isinstance(m, Ack):
                        ex.sender.ack(m.idx)
            net.mode = "held"
            net.on_idle = on_idle
            got_shutdown = {ex.host: 0 for ex in execs}
            budget = {ex.host: {"shutdown": c["drops"][i][0], "exit": c["drops"][i][1], "ack_c": c["drops"][i][2], "ack_e": c["drops"][i][3]}
                      for i, ex in enumerate(execs)}
            dropped = 0
            co = Coroutine(br.shutdown, "ctrl-shutdown")
            co.resume()
            for _round in range(700):
                # fates of everything on the wire
                for m in list(net.inflight):
                    kind = _framed(m["frames"])
                    i = net.inflight.index(m)
                    m0 = serde.des_message(m["frames"][0])
                    host = None
                    what = None
                    if kind == "data":
                        body = serde.des_message(m["frames"][1])
                        if isinstance(body, ExecutorShutdown):
                            host, what = m["dst"].split("//")[1].split(":")[0], "shutdown"
                        elif isinstance(body, ExecutorExit):
                            host, what = body.host, "exit"
                    elif kind == "ack":
                        if m["dst"] == CTRL:
                            what = "ack_c"
                            host = next((e.host for e in execs), None)
                        else:
                            host, what = m["dst"].split("//")[1].split(":")[0], "ack_e"
                    if host in budget and what and budget[host][what] > 0:
                        budget[host][what] -= 1
                        dropped += 1
                        net.drop(i)
                    else:
                        net.deliver(i)
                # the executors' turn
                for ex in execs:
                    for m in ex.mlistener.recv_messages(0):
                        if isinstance(m, Ack):
                            ex.sender.ack(m.idx)
                        elif isinstance(m, ExecutorShutdown):
                            got_shutdown[ex.host] += 1
                            ex.sender.send("controller", ExecutorExit(ex.host))
                    try:
                        ex.sender.maybe_retry()
                    except ValueError as e:
                        raise Violation(f"executor {ex.host} gave up under fair loss: {e}", "gave-up-under-fair-loss")
                net.advance_ms(400)
                if co.done:
                    break
                co.resume()
            if not co.done:
                raise Violation("Bridge.shutdown did not return within 280 s of virtual time", "shutdown-never-returns")
            if co.exc is not None:
                raise Violation(f"Bridge.shutdown raised {type(co.exc).__name__}: {co.exc}", "shutdown-raises")
            bad = {h: n for h, n in got_shutdown.items() if n != 1}
            if bad:
                raise Violation(f"ExecutorShutdown was handed to the acknowledged layer once per host; delivered {got_shutdown} "
                                f"(lost copies: {c['drops']}); the executors of {sorted(bad)} keep running", "shutdown-not-exactly-once")
            if br.sender.hosts:
                raise Violation(f"Bridge.shutdown returned although {sorted(br.sender.hosts)} never said goodbye (lost copies: {c['drops']})",
                                "shutdown-missed-exit")
        finally:
            bridge_mod.time = old_time
    return dropped >= 1, ["family:shutdown"] + (["shutdown_frame_lost"] if any(d[0] for d in c["drops"]) else [])


# ---------------------------------------------------------------------------------------------------- frames

def _enc(fr):
    k, v = fr
    if k == "syn":
        return serde.ser_message(Syn(idx=v, addr="tcp://tx:1"))
    if k == "ack":
        return serde.ser_message(Ack(idx=v))
    if k == "hdr":
        return pickle.dumps(DatasetTransmitPayloadHeader(confirm_address="tcp://tx:1", confirm_idx=v, ds=DatasetId("d", "0"), deser_fun="f"))
    if k == "msg":
        return serde.ser_message(DatasetPurge(ds=DatasetId(f"m{v}", "0")))
    return bytes(v)


def _denote(frames):
    """What the framing grammar says: ('ok', message) | ('nothing',) for a repeated Syn | ('reject',)."""
    kinds = [f[0] for f in frames]
    if kinds == ["msg"]:
        return ("ok", DatasetPurge(ds=DatasetId(f"m{frames[0][1]}", "0")))
    if kinds == ["ack"]:
        return ("ok", Ack(idx=frames[0][1]))
    if kinds == ["syn", "msg"]:
        return ("ok", DatasetPurge(ds=DatasetId(f"m{frames[1][1]}", "0")))
    if kinds == ["syn", "ack"]:
        return ("ok", Ack(idx=frames[1][1]))
    # the value frame of a payload is opaque bytes: any frame at all is a well-formed value
    if len(kinds) == 2 and kinds[0] == "hdr":
        return ("payload", frames[0][1], _enc(frames[1]))
    if len(kinds) == 3 and kinds[:2] == ["syn", "hdr"]:
        return ("payload", frames[1][1], _enc(frames[2]))
    return ("reject",)


def run_frames(c) -> tuple[bool, list[str]]:
    net = fakezmq.Net()
    with fakezmq.patched(net):
        lis = comms.Listener("tcp://rx:1")
        for attempt in range(2 if c["repeat"] else 1):
            net.inbox["tcp://rx:1"].append([_enc(f) for f in c["first"]])
            want = _denote(c["first"])
            if attempt == 1 and c["first"] and c["first"][0][0] == "syn" and want[0] != "reject":
                want = ("nothing",)
            try:
                got = lis._recv_one(0)
                raised = None
            except Exception as e:
                got, raised = None, e
            if want[0] == "reject":
                if raised is None and got is not None:
                    raise Violation(f"malformed frame sequence {c['first']} was delivered as {got!r}", "malformed-delivered")
            elif want[0] == "nothing":
                if raised is not None or got is not None:
                    raise Violation(f"repeated Syn-framed message delivered again / rejected: got {got!r} raised {raised!r}", "duplicate-syn")
            elif want[0] == "ok":
                if raised is not None or got != want[1]:
                    raise Violation(f"well-formed {c['first']} gave {got!r} / raised {raised!r}, expected {want[1]!r}", "wellformed-rejected")
            else:
                if raised is not None or not isinstance(got, DatasetTransmitPayload) or got.header.confirm_idx != want[1] or bytes(got.value) != want[2]:
                    raise Violation(f"well-formed payload {c['first']} gave {got!r} / raised {raised!r}", "wellformed-rejected")
    return len(c["first"]) >= 2, ["family:frames", "denotes:" + _denote(c["first"])[0]]


def shard(seed, cases_n, tier):
    st_ = Stats()

    def body(c, holder):
        if c["family"] == "loop":
            return run_loop(c, holder)
        if c["family"] == "giveup":
            return run_giveup(c)
        if c["family"] == "shutdown":
            return run_shutdown(c)
        return run_frames(c)

    common.hyp_run(cases, body, st_, seed, cases_n)
    return st_


def replay(case):
    c = case
    if "case" in case and "log" in case:
        c = dict(case["case"])
        c["log"] = case["log"]
    if c["family"] == "loop":
        run_loop(c, {})
    elif c["family"] == "giveup":
        run_giveup(c)
    elif c["family"] == "shutdown":
        run_shutdown(c)
    else:
        run_frames(c)
