"""C16 — the preschedule is a faithful structural summary of the job DAG.

Generator: genjob specs (random) + complete enumeration of all DAGs on 1..N single-output tasks.
Oracle: networkx, written from the property statement; shares no code with cascade.scheduler.graph.
"""

from __future__ import annotations

import itertools
import math
import os

import networkx as nx

from .. import common
from ..common import Stats, Violation
from ..genjob import build_job, job_specs, spec_edges, task_name

from cascade.low.core import DatasetId  # noqa: E402
from cascade.scheduler.graph import precompute  # noqa: E402

PROPERTY = "C16"
LEVEL = "exploration"
RULE = (
    "cases = job DAG specs from harness.genjob (0..14 tasks quick / 0..30 thorough; multi-output tasks, positional+keyword "
    "edges, multi-edges, isolated tasks, name order != topological order, job.edges in generated order, output names that tie numerically, "
    "twin tasks and shared callables) plus ALL labelled DAGs over a fixed topological "
    "order on 1..5 (quick) / 1..6 (thorough) single-output tasks; non-trivial = >=2 weakly connected components or a diamond "
    "(a task with two distinct parents that share an ancestor-or-self); distinct = fingerprint of the canonical spec"
)
ASSUMPTIONS = [
    "networkx (weakly_connected_components, shortest path lengths, dag_longest_path_length) is the trusted oracle",
    "coptrs is absent in this sandbox, so the Python fallback of nearest_common_descendant is what runs",
    "the exhaustive sub-space is complete only up to task renaming (names come from one permutation per graph)",
]
TIERS = {
    "quick": {"cases": 1600, "shards": 8, "max_tasks": 14, "exh_n": 5},
    "thorough": {"cases": 160000, "shards": 16, "max_tasks": 30, "exh_n": 6},
}


def check_job(spec: dict) -> tuple[bool, list[str]]:
    job = build_job(spec)
    names = [t["name"] for t in spec["tasks"]]
    es = spec_edges(spec)
    try:
        with common.time_limit(10):  # ms normally; a hang detector, not a deadline
            pre = precompute(job)
    except common.Hang as e:
        raise Violation(f"precompute did not terminate: {e}", "precompute-hangs", fatal=True)
    except Exception as e:  # a well-formed job must be accepted
        raise Violation(f"precompute raised {type(e).__name__}: {e}", "precompute-raises")

    G = nx.DiGraph()
    G.add_nodes_from(names)
    for (si, so, di, _p) in es:
        G.add_edge(names[si], names[di])

    # --- edge projections
    exp_o: dict = {}
    exp_i: dict = {n: set() for n in names}
    for (si, so, di, _p) in es:
        exp_o.setdefault(DatasetId(names[si], so), set()).add(names[di])
        exp_i[names[di]].add(DatasetId(names[si], so))
    for j, t in enumerate(spec["tasks"]):
        n = t["name"]
        exp_to = {DatasetId(n, o) for o in t["outs"]}
        if pre.task_o.get(n) != exp_to:
            raise Violation(f"task_o[{n}] = {pre.task_o.get(n)} expected {exp_to}", "task_o")
        got_i = set(pre.edge_i.get(n, set()))
        if got_i != exp_i[n]:
            raise Violation(f"edge_i[{n}] = {got_i} expected {exp_i[n]}", "edge_i")
        for ds in exp_to:
            got_o = set(pre.edge_o.get(ds, set()))
            if got_o != exp_o.get(ds, set()):
                raise Violation(f"edge_o[{ds}] = {got_o} expected {exp_o.get(ds, set())}", "edge_o")
    for ds, v in pre.edge_o.items():
        if v and ds not in exp_o:
            raise Violation(f"edge_o has an entry for {ds} that no edge states", "edge_o-extra")
    for tk, v in pre.edge_i.items():
        if v and tk not in exp_i:
            raise Violation(f"edge_i has an entry for unknown task {tk}", "edge_i-extra")
    if set(pre.task_o.keys()) != set(names):
        raise Violation("task_o keys differ from the job's tasks", "task_o")

    # --- components
    exp_comps = [frozenset(c) for c in nx.weakly_connected_components(G)]
    got_nodes = [list(c.nodes) for c in pre.components]
    flat = [n for c in got_nodes for n in c]
    if len(flat) != len(set(flat)):
        raise Violation(f"a task occurs in more than one component / twice: {got_nodes}", "components-dup")
    if sorted(map(sorted, got_nodes)) != sorted(map(sorted, exp_comps)):
        raise Violation(f"components {sorted(map(sorted, got_nodes))} expected {sorted(map(sorted, exp_comps))}", "components")
    sizes = [len(c) for c in got_nodes]
    if sizes != sorted(sizes, reverse=True):
        raise Violation(f"components not sorted heaviest first: {sizes}", "components-order")

    # --- per component
    for comp in pre.components:
        sub = G.subgraph(comp.nodes)
        exp_src = {n for n in comp.nodes if G.in_degree(n) == 0}
        if len(comp.sources) != len(set(comp.sources)) or set(comp.sources) != exp_src:
            raise Violation(f"sources {comp.sources} expected {sorted(exp_src)}", "sources")
        depth = nx.dag_longest_path_length(sub) + 1
        if comp.depth != depth:
            raise Violation(f"depth {comp.depth} expected {depth} for component {sorted(comp.nodes)}", "depth")
        sinks = {n for n in comp.nodes if G.out_degree(n) == 0}
        dist = {a: nx.single_source_shortest_path_length(sub, a) for a in comp.nodes}
        for a in comp.nodes:
            exp_val = depth - min(d for c, d in dist[a].items() if c in sinks)
            if comp.value.get(a) != exp_val:
                raise Violation(f"value[{a}] = {comp.value.get(a)} expected {exp_val}", "value")
        if set(comp.value.keys()) != set(comp.nodes):
            raise Violation("value keys differ from the component's nodes", "value")
        for a in comp.nodes:
            for b in comp.nodes:
                if a == b:
                    exp_d = 0
                else:
                    common_desc = set(dist[a]) & set(dist[b])
                    exp_d = min((max(dist[a][c], dist[b][c]) for c in common_desc), default=depth)
                    exp_d = min(exp_d, depth)
                try:
                    got_d = comp.distance_matrix[a][b]
                except KeyError:
                    raise Violation(f"distance_matrix lacks [{a}][{b}]", "distance")
                if got_d != exp_d:
                    raise Violation(f"distance[{a}][{b}] = {got_d} expected {exp_d}", "distance")

    # --- classification
    diamond = False
    for n in names:
        ps = list(G.predecessors(n))
        if len(ps) >= 2:
            anc = [nx.ancestors(G, p) | {p} for p in ps]
            if any(anc[i] & anc[j] for i in range(len(ps)) for j in range(i + 1, len(ps))):
                diamond = True
                break
    multi_edge = len({(s, d) for (s, _o, d, _p) in es}) < len(es)
    classes = []
    if len(exp_comps) >= 2:
        classes.append("multi_component")
    if diamond:
        classes.append("diamond")
    if multi_edge:
        classes.append("multi_edge")
    if any(G.degree(n) == 0 for n in names):
        classes.append("isolated_task")
    if any(len(t["outs"]) > 1 for t in spec["tasks"]):
        classes.append("multi_output")
    if not names:
        classes.append("empty_job")
    if any(isinstance(p, str) for (_s, _o, _d, p) in es):
        classes.append("keyword_edge")
    return (len(exp_comps) >= 2 or diamond), classes


def exhaustive_spec(n: int, mask: int, seed: int) -> dict:
    pairs = [(i, j) for j in range(n) for i in range(j)]
    perms = math.factorial(n)
    k = (mask * 7 + seed) % perms
    perm = list(next(itertools.islice(itertools.permutations(range(n)), k, None)))
    tasks = []
    for j in range(n):
        args = [{"e": [i, "__default__"]} for b, (i, jj) in enumerate(pairs) if jj == j and (mask >> b) & 1]
        tasks.append({"name": task_name(perm[j]), "outs": ["__default__"], "gpu": False, "args": args, "kwargs": {},
                      "placeholders": False})
    return {"tasks": tasks, "ext": []}


def shard(seed: int, cases: int, tier: str) -> Stats:
    cfg = TIERS[tier]
    st = Stats()
    idx = int(os.environ.get("VERIF_SHARD", "0"))
    nsh = int(os.environ.get("VERIF_SHARDS", "1"))
    # exhaustive sub-tier, partitioned over the shards
    exh = 0
    for n in range(1, cfg["exh_n"] + 1):
        for mask in range(1 << (n * (n - 1) // 2)):
            if mask % nsh != idx:
                continue
            spec = exhaustive_spec(n, mask, seed // 1000)
            try:
                nt, classes = check_job(spec)
            except Violation as v:
                st.violations.append({"case": common.canonical(spec), "msg": str(v), "clause": v.clause})
                return st
            st.record(spec, nt, classes + ["exhaustive"])
            exh += 1
    st.extra["exhaustive_graphs"] = exh
    common.hyp_run(job_specs(max_tasks=cfg["max_tasks"]), check_job, st, seed, cases)
    return st


def finalize(stats: Stats, tier: str) -> None:
    n = TIERS[tier]["exh_n"]
    expected = sum(1 << (k * (k - 1) // 2) for k in range(1, n + 1))
    stats.extra["exhaustive_subspace"] = f"all DAGs on 1..{n} single-output tasks over a fixed topological order: {expected} graphs"
    stats.extra["exhaustive_subspace_complete"] = bool(stats.extra.get("exhaustive_graphs") == expected) and not stats.violations


def replay(case: dict) -> None:
    check_job(case)

MANIFEST = {
    "engine": "structural-oracle",
    "technique": "property-based testing (Hypothesis) with a networkx differential oracle + exhaustive enumeration of all DAGs on <=5/6 tasks",
    "text": "Generated-input search: every generated job DAG's Preschedule is compared field by field with an independent networkx "
            "computation of the statement (components, order, sources, edge maps, depth, value, distance matrix); all DAGs on up to "
            "5 (quick) / 6 (thorough) tasks are enumerated completely. Search, not proof: larger DAGs are sampled.",
    "note": "networkx is trusted; coptrs fast path is not installed so only the Python fallback runs; exhaustive part is up to task renaming.",
}
