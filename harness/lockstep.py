"""Runs a blocking loop of the real code as a coroutine: a daemon thread that only runs while the driver is blocked.
Exactly one thread is runnable at any time, so the execution is a deterministic function of the driver's decisions."""

from __future__ import annotations

import threading
from typing import Callable

_current = threading.local()


class Coroutine:
    def __init__(self, fn: Callable[[], None], name: str = "co"):
        self.fn = fn
        self.name = name
        self._to_co = threading.Semaphore(0)
        self._to_main = threading.Semaphore(0)
        self.done = False
        self.exc: BaseException | None = None
        self.started = False
        self.thread = threading.Thread(target=self._run, name=name, daemon=True)

    def _run(self) -> None:
        self._to_co.acquire()
        _current.co = self
        try:
            self.fn()
        except BaseException as e:  # surfaced to the driver
            self.exc = e
        finally:
            self.done = True
            self._to_main.release()

    def resume(self) -> None:
        """Driver side: let the coroutine run until it parks or finishes."""
        if self.done:
            return
        if not self.started:
            self.started = True
            self.thread.start()
        self._to_co.release()
        self._to_main.acquire()

    def park(self) -> None:
        """Coroutine side: hand the baton back to the driver and wait to be resumed."""
        self._to_main.release()
        self._to_co.acquire()


def current() -> Coroutine | None:
    return getattr(_current, "co", None)
