"""Shared plumbing: violations, statistics, canonical cases, Hypothesis driver, choosers, sharding,
evidence and replay I/O, known findings.

Exit codes of run_check.py: 0 held, 1 VIOLATION (not listed in known_findings.json), 2 harness error.
"""

from __future__ import annotations

import hashlib
import json
import os
import sys
import time
import traceback
from collections import Counter
from typing import Any, Callable, Iterable

from . import VERIF

# --------------------------------------------------------------------------------------------
# violations and statistics


class Violation(Exception):
    """The property under test does not hold for the current case."""

    def __init__(self, msg: str, clause: str = "", fatal: bool = False):
        super().__init__(msg)
        self.msg = msg
        self.clause = clause
        self.fatal = fatal  # do not shrink (the process is compromised, e.g. by a runaway thread)

    def __str__(self) -> str:
        return f"[{self.clause}] {self.msg}" if self.clause else self.msg


class _Abort(BaseException):
    """Carries a fatal violation straight through Hypothesis (BaseException is not caught by its engine)."""


class HarnessError(Exception):
    """Something is wrong with the check itself (never reported as a violation)."""


def canonical(x: Any) -> Any:
    """JSON-able canonical form of a case (bytes -> {"__b__": hex}, tuples -> lists, sets sorted)."""
    if isinstance(x, (bytes, bytearray, memoryview)):
        return {"__b__": bytes(x).hex()}
    if isinstance(x, dict):
        return {str(k): canonical(v) for k, v in sorted(x.items(), key=lambda kv: str(kv[0]))}
    if isinstance(x, (list, tuple)):
        return [canonical(v) for v in x]
    if isinstance(x, (set, frozenset)):
        return sorted((canonical(v) for v in x), key=lambda v: json.dumps(v, sort_keys=True))
    if isinstance(x, float):
        if x != x:
            return {"__f__": "nan"}
        if x in (float("inf"), float("-inf")):
            return {"__f__": "inf" if x > 0 else "-inf"}
        return x
    if isinstance(x, (str, int, bool)) or x is None:
        return x
    return {"__repr__": repr(x)}


def decanonical(x: Any) -> Any:
    if isinstance(x, dict):
        if set(x.keys()) == {"__b__"}:
            return bytes.fromhex(x["__b__"])
        if set(x.keys()) == {"__f__"}:
            return float(x["__f__"])
        return {k: decanonical(v) for k, v in x.items()}
    if isinstance(x, list):
        return [decanonical(v) for v in x]
    return x


def fingerprint(*parts: Any) -> int:
    h = hashlib.blake2b(digest_size=8)
    for p in parts:
        h.update(json.dumps(canonical(p), sort_keys=True, separators=(",", ":")).encode())
        h.update(b"\x00")
    return int.from_bytes(h.digest(), "big")


class Stats:
    """What one shard (or the merged run) explored. Everything here is measured."""

    MAX_SAMPLES = 4

    def __init__(self) -> None:
        self.evaluations = 0
        self.fps: set[int] = set()  # fingerprints of distinct non-trivial cases
        self.classes: Counter = Counter()
        self.samples: list[Any] = []
        self.kf_hits: Counter = Counter()
        self.excluded: Counter = Counter()
        self.violations: list[dict] = []
        self.inconclusive = 0
        self.extra: dict[str, Any] = {}

    def record(self, case: Any, nontrivial: bool, classes: Iterable[str] = (), trace: Any = None) -> None:
        self.evaluations += 1
        for c in classes:
            self.classes[c] += 1
        if nontrivial:
            fp = fingerprint(case, trace)
            if fp not in self.fps:
                self.fps.add(fp)
                if len(self.samples) < self.MAX_SAMPLES:
                    self.samples.append(canonical(case))
        self.classes["nontrivial" if nontrivial else "trivial"] += 1

    def merge(self, o: "Stats") -> None:
        self.evaluations += o.evaluations
        self.fps |= o.fps
        self.classes.update(o.classes)
        for s in o.samples:
            if len(self.samples) < self.MAX_SAMPLES:
                self.samples.append(s)
        self.kf_hits.update(o.kf_hits)
        self.excluded.update(o.excluded)
        self.violations.extend(o.violations)
        self.inconclusive += o.inconclusive
        for k, v in o.extra.items():
            if isinstance(v, (int, float)) and isinstance(self.extra.get(k, 0), (int, float)):
                self.extra[k] = self.extra.get(k, 0) + v
            else:
                self.extra.setdefault(k, v)


# --------------------------------------------------------------------------------------------
# known findings


class KnownFindings:
    def __init__(self, path: str | None = None):
        path = path or os.path.join(VERIF, "known_findings.json")
        self.entries: dict[tuple[str, str], dict] = {}
        self.fixed: list[str] = []
        if os.path.exists(path):
            with open(path) as f:
                doc = json.load(f)
            for e in doc.get("findings", []):
                self.entries[(e["property"], e["id"])] = e
            self.fixed = list(doc.get("fixed", []))

    def listed(self, prop: str, fid: str) -> bool:
        return (prop, fid) in self.entries

    def what(self, prop: str, fid: str) -> str:
        return self.entries[(prop, fid)]["what"]


_KF: KnownFindings | None = None


def known_findings() -> KnownFindings:
    global _KF
    if _KF is None:
        _KF = KnownFindings()
    return _KF


def known(stats: Stats, prop: str, fid: str) -> bool:
    """True (and counted) if finding `fid` is listed for `prop`; the caller has already established that
    the current case matches the finding's signature."""
    if known_findings().listed(prop, fid):
        stats.kf_hits[fid] += 1
        return True
    return False


# --------------------------------------------------------------------------------------------
# choosers: the single source of nondeterminism for simulations


class Chooser:
    """Decisions of a simulation. `choose(n)` returns an int in [0, n). All decisions taken are logged so a
    failing run can be replayed from the log alone, without Hypothesis."""

    def __init__(self, prefix: list[int] | None = None, tail_seed: int | None = None):
        self.prefix = list(prefix or [])
        self.pos = 0
        self.log: list[int] = []
        self._rng = None
        if tail_seed is not None:
            import random

            self._rng = random.Random(tail_seed)  # deterministic function of the generated case

    def choose(self, n: int) -> int:
        if n <= 0:
            raise HarnessError("choose(0)")
        if self.pos < len(self.prefix):
            v = self.prefix[self.pos] % n
        elif self._rng is not None:
            v = self._rng.randrange(n)
        else:
            v = 0
        self.pos += 1
        self.log.append(v)
        return v

    def flag(self, num: int = 1, den: int = 2) -> bool:
        """True with probability num/den."""
        return self.choose(den) < num

    def pick(self, seq):
        return seq[self.choose(len(seq))]


# --------------------------------------------------------------------------------------------
# Hypothesis driver


def hyp_run(
    strategy,
    body: Callable[[Any], tuple],
    stats: Stats,
    seed: int,
    n: int,
    shrink: bool = True,
    case_of: Callable[[Any], Any] | None = None,
    skip_first: bool = False,
) -> None:
    """Runs `body(case)` on `n` generated cases. body returns (nontrivial, classes[, trace]) or raises
    Violation; it may return a dict to be merged into the case for replay (key 'replay'). The first violation
    is shrunk and recorded in stats.violations; other exceptions propagate (harness error)."""
    import hypothesis
    from hypothesis import HealthCheck, Phase, given, settings

    last: dict[str, Any] = {}
    seen = [0]
    if skip_first:
        # the first example Hypothesis generates is the simplest one its strategy can produce, whatever the seed: with a handful of
        # expensive executions per shard (real clusters) every shard would spend one of them on the same trivial case
        n += 1

    phases = [Phase.explicit, Phase.generate] + ([Phase.shrink] if shrink else [])

    @hypothesis.seed(seed)
    @settings(
        max_examples=n,
        database=None,
        deadline=None,
        report_multiple_bugs=False,
        suppress_health_check=list(HealthCheck),
        phases=phases,
        print_blob=False,
    )
    @given(strategy)
    def _t(case):
        holder: dict[str, Any] = {}
        seen[0] += 1
        if skip_first and seen[0] == 1:
            return
        try:
            r = body(case, holder) if _wants_holder(body) else body(case)
        except Violation as v:
            c = case_of(case) if case_of else case
            if holder:
                c = {"case": c, **holder}
            last["case"] = c
            last["msg"] = str(v)
            last["clause"] = v.clause
            stats.evaluations += 1
            stats.classes["violating_executions"] += 1
            if v.fatal:
                raise _Abort()
            raise
        nontrivial, classes = r[0], r[1]
        trace = r[2] if len(r) > 2 else None
        stats.record(case_of(case) if case_of else case, nontrivial, classes, trace)

    try:
        _t()
    except (Violation, _Abort):
        stats.violations.append({"case": canonical(last["case"]), "msg": last["msg"], "clause": last["clause"]})
    except hypothesis.errors.Flaky:
        # the violation was observed on real code but did not recur when Hypothesis re-ran the same case: the code under test is
        # not a pure function of the case (e.g. iteration over a set of objects hashed by address). Still a violation that happened.
        if "case" not in last:
            raise
        stats.violations.append({"case": canonical(last["case"]), "msg": last["msg"] + " [not reproduced on immediate re-run: "
                                 "outcome depends on address/iteration order]", "clause": last["clause"]})
    except hypothesis.errors.Unsatisfiable as e:  # generator problem: harness error, not a pass
        raise HarnessError(f"generator unsatisfiable: {e}")


def _wants_holder(f) -> bool:
    import inspect

    try:
        return len(inspect.signature(f).parameters) >= 2
    except (TypeError, ValueError):
        return False


# --------------------------------------------------------------------------------------------
# sharding


class Hang(Exception):
    pass


class time_limit:
    """Raises Hang in the main thread if the block consumes more than `seconds` of CPU time of this process (an endless loop burns
    CPU whatever the load of the machine; wall time would also expire for a process that is merely starved), or, as a fall-back for
    a block that sleeps for ever, 60x that in wall time. Only for code whose normal duration is orders of magnitude below the limit
    (a hang detector, not a deadline)."""

    def __init__(self, seconds: int):
        self.seconds = seconds

    def _handler(self, signum, frame):
        raise Hang(f"no result within {self.seconds}s of CPU time (or {60 * self.seconds}s of wall time)")

    def __enter__(self):
        import signal

        self._old_prof = signal.signal(signal.SIGPROF, self._handler)
        self._old = signal.signal(signal.SIGALRM, self._handler)
        signal.setitimer(signal.ITIMER_PROF, self.seconds)
        signal.alarm(60 * self.seconds)
        return self

    def __exit__(self, *a):
        import signal

        signal.setitimer(signal.ITIMER_PROF, 0)
        signal.alarm(0)
        signal.signal(signal.SIGPROF, self._old_prof)
        signal.signal(signal.SIGALRM, self._old)
        return False


def _shard_entry(args, conn=None):
    modname, seed, cases, tier, idx, nshards = args
    import importlib

    os.environ["VERIF_SHARD"] = str(idx)
    os.environ["VERIF_SHARDS"] = str(nshards)
    try:
        import resource

        lim = int(os.environ.get("VERIF_SHARD_MEM_GB", "5")) << 30
        resource.setrlimit(resource.RLIMIT_AS, (lim, lim))
    except Exception:
        pass
    try:
        mod = importlib.import_module(modname)
        st = mod.shard(seed, cases, tier)
        res = ("ok", st)
    except BaseException:
        res = ("error", traceback.format_exc())
    if conn is None:
        return res
    try:
        conn.send(res)
    except BaseException:
        conn.send(("error", "could not send shard result:\n" + traceback.format_exc()))
    conn.close()
    sys.stdout.flush()
    sys.stderr.flush()
    os._exit(0)  # do not wait for stray threads of the code under test


def run_isolated(fn, *args, timeout_s: float = 900.0) -> tuple[str, str, str]:
    """Runs fn(*args) in a forked child. Returns ("ok", "", "") | ("violation", message, clause) | ("error", traceback, "")."""
    import multiprocessing as mp

    ctx = mp.get_context("fork")
    pr, pw = ctx.Pipe(duplex=False)

    def child():
        try:
            fn(*args)
            res = ("ok", "", "")
        except Violation as v:
            res = ("violation", str(v), v.clause)
        except BaseException:  # noqa: BLE001
            res = ("error", traceback.format_exc(), "")
        try:
            pw.send(res)
            pw.close()
        finally:
            sys.stdout.flush()
            sys.stderr.flush()
            os._exit(0)

    p = ctx.Process(target=child, daemon=False)
    p.start()
    pw.close()
    try:
        if pr.poll(timeout_s):
            res = pr.recv()
        else:
            res = ("error", f"no result within {timeout_s:.0f}s", "")
    except EOFError:
        res = ("error", f"child died without a result (exit code {p.exitcode})", "")
    finally:
        if p.is_alive():
            p.join(10)
        if p.is_alive():
            p.kill()
            p.join(5)
    return res


def run_shards(modname: str, seed: int, cases: int, shards: int, tier: str, budget_s: float | None = None) -> Stats:
    """Runs mod.shard in `shards` forked processes. A shard that dies or exceeds the wall budget makes the whole
    run inconclusive (HarnessError -> exit 2); it is never reported as a violation."""
    import multiprocessing as mp
    from multiprocessing.connection import wait

    per = max(1, cases // shards)
    jobs = [(modname, seed * 1000 + i, per, tier, i, shards) for i in range(shards)]
    merged = Stats()
    merged.extra["shard_seeds"] = [j[1] for j in jobs]
    if budget_s is None:
        budget_s = float(os.environ.get("VERIF_BUDGET_S", "1500" if tier == "quick" else "28000"))
    ctx = mp.get_context("fork")
    pending = list(jobs)
    running: dict = {}
    results: list = []
    maxpar = min(shards, int(os.environ.get("VERIF_PAR", str(os.cpu_count() or 1))))
    deadline = now() + budget_s
    try:
        while pending or running:
            while pending and len(running) < maxpar:
                job = pending.pop(0)
                pr, pw = ctx.Pipe(duplex=False)
                p = ctx.Process(target=_shard_entry, args=(job, pw), daemon=False)
                p.start()
                pw.close()
                running[pr] = (p, job)
            left = deadline - now()
            if left <= 0:
                raise HarnessError(f"inconclusive: {len(running)} shard(s) still running after {budget_s:.0f}s wall budget")
            ready = wait(list(running.keys()), timeout=min(left, 5.0))
            for r in ready:
                p, job = running.pop(r)
                try:
                    res = r.recv()
                except EOFError:
                    p.join()
                    raise HarnessError(f"shard {job[4]} died without a result (exit code {p.exitcode})")
                r.close()
                p.join()
                results.append(res)
    finally:
        for r, (p, job) in running.items():
            try:
                p.kill()
                p.join(5)
            except Exception:
                pass
    for kind, payload in results:
        if kind == "error":
            raise HarnessError("shard failed:\n" + payload)
        merged.merge(payload)
    return merged


# --------------------------------------------------------------------------------------------
# evidence / replay files


def write_replay(prop: str, violation: dict) -> str:
    d = os.path.join(VERIF, "out", "replays", prop)
    os.makedirs(d, exist_ok=True)
    fp = fingerprint(violation["case"])
    path = os.path.join(d, f"{prop}-{fp:016x}.json")
    with open(path, "w") as f:
        json.dump({"property": prop, "msg": violation["msg"], "clause": violation.get("clause", ""),
                   "case": violation["case"]}, f, indent=1, sort_keys=True)
    return path


def load_replay(path: str) -> dict:
    with open(path) as f:
        doc = json.load(f)
    doc["case"] = decanonical(doc["case"])
    return doc


def write_evidence(prop: str, tier: str, seed: int, level: str, rule: str, assumptions: list[str],
                   stats: Stats, wall_s: float, extra_cov: dict | None = None) -> str:
    cov: dict[str, Any] = {
        "evaluations": stats.evaluations,
        "distinct_nontrivial": len(stats.fps),
        "rule": rule,
        "samples": stats.samples,
        "classes": dict(sorted(stats.classes.items())),
        "known_finding_hits": dict(stats.kf_hits),
        "excluded_by_construction": dict(stats.excluded),
        "inconclusive": stats.inconclusive,
    }
    for k, v in stats.extra.items():
        cov[k] = v
    if extra_cov:
        cov.update(extra_cov)
    doc = {
        "property_id": prop,
        "tier": tier,
        "seed": seed,
        "level": level,
        "coverage": cov,
        "assumptions": assumptions,
        "wall_s": round(wall_s, 2),
        "violations": len(stats.violations),
    }
    d = os.path.join(VERIF, "evidence")
    os.makedirs(d, exist_ok=True)
    path = os.path.join(d, f"{prop}.json")
    tmp = path + ".tmp"
    with open(tmp, "w") as f:
        json.dump(doc, f, indent=1, sort_keys=True, default=repr)
    os.replace(tmp, path)
    return path


def regression_files(prop: str) -> list[str]:
    d = os.path.join(VERIF, "replays", prop)
    if not os.path.isdir(d):
        return []
    return sorted(os.path.join(d, f) for f in os.listdir(d) if f.endswith(".json"))


def now() -> float:
    return time.monotonic()


def eprint(*a: Any) -> None:
    print(*a, file=sys.stderr, flush=True)
