"""Real data plane (sampled evidence for C07): two hosts, each a real shm server process and a real DataServer process
(`data_server.start_data_server`: real zmq over loopback TCP, real Listener / send_data, the real 2-thread pool, the real shm
client), with this process in the controller's role: it pre-stores datasets through the real shm client, sends
DatasetTransmitCommand / DatasetPurge messages to the data servers' sockets and listens where the executors' and the controller's
listeners would.

What the in-memory C07 harness cannot produce happens here for real: two pool threads of one data server talk to the shm server
and to zmq at the same time, payloads of very different size overtake each other, datagrams and frames are real. The schedule is the
operating system's: sampled, not searched.

Oracle (C07 statement): every commanded transfer whose dataset exists at the source ends with exactly one copy at the target,
byte-identical (and same decoding function), announced exactly once by the target (never by a redundant transfer); a fetch hands
the controller exactly one payload with the source's bytes; nothing reports a failure.
"""

from __future__ import annotations

import hashlib
import os
import time

from . import REPO  # noqa: F401
from .common import HarnessError, Violation
from .realshm import Server

WAIT_S = 25.0


def content(key: str, size: int) -> bytes:
    h = hashlib.sha256(key.encode()).digest()
    return (h * (size // len(h) + 1))[:size]


def _ds_proc(maddress: str, daddress: str, host: str, shm_port: int) -> None:
    try:
        if not os.environ.get("RD_DEBUG"):
            dn = os.open(os.devnull, os.O_WRONLY)
            os.dup2(dn, 1)
            os.dup2(dn, 2)
        from cascade.executor.data_server import start_data_server

        start_data_server(maddress, daddress, host, shm_port, {"version": 1, "disable_existing_loggers": False})
    finally:
        os._exit(0)


def run_case(case: dict, tcp_base: int, udp_base: int, prefix: str) -> dict:
    """The case on a port block of its own. Another run of the same check at the same time (a sweep over seeded changes, mutation
    probes) may take a port between the probe and the bind: the set-up is then repeated on another block -- a set-up that fails for
    lack of a port says nothing about the code under test."""
    import zmq

    last: Exception | None = None
    for attempt in range(5):
        base = tcp_base if attempt == 0 else 1100 + (tcp_base - 1100 + 997 * attempt + 13 * (os.getpid() % 50)) % 31000
        try:
            return _run_case_once(case, base, udp_base, f"{prefix}a{attempt}" if attempt else prefix)
        except zmq.error.ZMQError as e:
            if e.errno != zmq.EADDRINUSE:
                raise
            last = e
        except HarnessError as e:
            if "did not start listening" not in str(e):
                raise
            last = e
    raise HarnessError(f"no free port block for the real data plane after 5 attempts: {last}")


def _run_case_once(case: dict, tcp_base: int, udp_base: int, prefix: str) -> dict:
    """case = {"datasets": [{"size": int, "at": [host indices]}], "script": [["transmit", di, src, dst] | ["fetch", di, src]]}"""
    import multiprocessing as mp

    from cascade.executor import comms
    from cascade.executor.msg import (
        Ack,
        DatasetPublished,
        DatasetTransmitCommand,
        DatasetTransmitFailure,
        DatasetTransmitPayload,
    )
    from cascade.executor.runner.memory import ds2shmid
    from cascade.low.core import DatasetId
    from cascade.shm import api as shm_api
    from cascade.shm import client as shm_client

    from .realcluster import free_port_block

    tcp_base = free_port_block(tcp_base, 4)
    ctx = mp.get_context("fork")
    hosts = ["h0", "h1"]
    shm: list[Server] = []
    procs = []
    listener = None
    stats = {"transfers": 0, "fetches": 0, "redundant": 0, "bytes": 0, "concurrent_commands": 0}
    try:
        for i, _h in enumerate(hosts):
            shm.append(Server(udp_base + i * 3, 1 << 26, f"{prefix}{i}", attempts=3))
        maddr = f"tcp://localhost:{tcp_base}"
        daddr = [f"tcp://localhost:{tcp_base + 1 + i}" for i in range(len(hosts))]
        listener = comms.Listener(maddr)  # the executors' message listeners and the controller's, in one
        for i, h in enumerate(hosts):
            p = ctx.Process(target=_ds_proc, args=(maddr, daddr[i], h, shm[i].port), daemon=True)
            p.start()
            procs.append(p)
        # pre-store
        dsid = [DatasetId(f"t{k}", "0") for k in range(len(case["datasets"]))]
        holds: dict[tuple[int, int], bool] = {}
        for k, d in enumerate(case["datasets"]):
            for hi in d["at"]:
                shm_api.publish_client_port(shm[hi].port)
                b = shm_client.allocate(ds2shmid(dsid[k]), d["size"], f"deser{k}")
                b.view()[: d["size"]] = content(f"t{k}", d["size"])
                b.close()
                holds[(hi, k)] = True
        # wait until both data servers listen: a command sent through a short-lived PUSH socket (LINGER 1 s, as comms.callback makes
        # them) to a port nobody has bound yet is dropped after that second -- on a loaded machine a data server process needs longer
        import socket as _socket

        for i in range(len(hosts)):
            t_end = time.time() + 30
            while True:
                try:
                    _socket.create_connection(("localhost", tcp_base + 1 + i), timeout=0.5).close()
                    break
                except OSError:
                    if time.time() > t_end or not procs[i].is_alive():
                        raise HarnessError(f"data server of {hosts[i]} did not start listening on port {tcp_base + 1 + i}")
                    time.sleep(0.1)
        # commands, back to back (the pool of a data server runs two of them at a time)
        expected_pub: dict[tuple[int, int], int] = {}  # (host, dataset) -> announcements expected
        expected_fetch: dict[int, int] = {}
        idx = 0
        for op in case["script"]:
            if op[0] == "transmit":
                _k, di, src, dst = op
                if src == dst or not holds.get((src, di)):
                    continue
                cmd = DatasetTransmitCommand(source=hosts[src], target=hosts[dst], daddress=daddr[dst], ds=dsid[di], idx=idx)
                if holds.get((dst, di)) or (dst, di) in expected_pub:
                    stats["redundant"] += 1
                    expected_pub.setdefault((dst, di), 0)
                else:
                    expected_pub[(dst, di)] = 1
                stats["transfers"] += 1
            else:
                _k, di, src = op
                if not holds.get((src, di)):
                    continue
                cmd = DatasetTransmitCommand(source=hosts[src], target="controller", daddress=maddr, ds=dsid[di], idx=idx)
                expected_fetch[idx] = di
                stats["fetches"] += 1
            idx += 1
            comms.callback(daddr[src], cmd)
            stats["bytes"] += case["datasets"][di]["size"]
        stats["concurrent_commands"] = idx
        # collect
        got_pub: dict[tuple[str, str], int] = {}
        got_fetch: dict[int, list] = {}
        failures: list = []
        deadline = time.time() + WAIT_S
        quiet_since = None
        while time.time() < deadline:
            ms = listener.recv_messages(200)
            if ms:
                quiet_since = None
            for m in ms:
                if isinstance(m, DatasetPublished):
                    got_pub[(m.origin, m.ds.task)] = got_pub.get((m.origin, m.ds.task), 0) + 1
                elif isinstance(m, DatasetTransmitPayload):
                    got_fetch.setdefault(m.header.confirm_idx, []).append((bytes(m.value), m.header.deser_fun, m.header.ds.task))
                elif isinstance(m, DatasetTransmitFailure):
                    failures.append(m)
                elif isinstance(m, Ack):
                    pass
            done = all(got_pub.get((hosts[h], f"t{d}"), 0) >= n for (h, d), n in expected_pub.items()) and \
                all(i in got_fetch for i in expected_fetch)
            if done and not ms:
                # everything expected has arrived: stay a little longer to see duplicates (a second announcement, a second payload)
                quiet_since = quiet_since or time.time()
                if time.time() - quiet_since > 1.0:
                    break
        dead = [hosts[i] for i, p in enumerate(procs) if not p.is_alive()]
        # verdict
        if failures:
            raise Violation(f"a data server reported {failures[0]!r} for a transfer whose dataset exists at the source", "failure-reported")
        if dead:
            raise Violation(f"data server process of {dead} ended during the run", "server-died")
        for (h, d), n in expected_pub.items():
            g = got_pub.get((hosts[h], f"t{d}"), 0)
            if g != n:
                raise Violation(f"{hosts[h]} announced t{d}.0 {g} times, expected {n} ({case['datasets'][d]['size']} bytes, "
                                f"{stats['concurrent_commands']} commands issued back to back)", "announce-count")
        for (h, d) in list(expected_pub) + [k for k, v in holds.items() if v]:
            shm_api.publish_client_port(shm[h].port)
            try:
                buf = shm_client.get(ds2shmid(dsid[d]), timeout_sec=10)
            except Exception as e:  # noqa: BLE001
                raise Violation(f"{hosts[h]} does not hold t{d}.0 after the transfer was announced: {e!r}", "not-stored")
            data, fun = bytes(buf.view()), buf.deser_fun
            buf.close()
            size = case["datasets"][d]["size"]
            if data != content(f"t{d}", size) or fun != f"deser{d}":
                raise Violation(f"{hosts[h]} holds t{d}.0 as {len(data)} bytes {data[:12]!r}… with decoder {fun!r}; the source has {size} "
                                f"bytes {content(f't{d}', size)[:12]!r}… with decoder 'deser{d}'", "bytes-differ")
        for i, d in expected_fetch.items():
            g = got_fetch.get(i, [])
            if len(g) != 1:
                raise Violation(f"fetch #{i} of t{d}.0 handed the controller {len(g)} payloads", "fetch-count")
            data, fun, task = g[0]
            size = case["datasets"][d]["size"]
            if task != f"t{d}" or data != content(f"t{d}", size) or fun != f"deser{d}":
                raise Violation(f"fetch #{i} of t{d}.0 delivered {len(data)} bytes {data[:12]!r}… labelled {task}/{fun!r}", "fetch-bytes")
        return stats
    except (Violation, HarnessError):
        raise
    finally:
        for p in procs:
            try:
                p.kill()
                p.join(3)
            except Exception:  # noqa: BLE001
                pass
        if listener is not None:
            try:
                listener.socket.close(0)
            except Exception:  # noqa: BLE001
                pass
        for s in shm:
            s.stop()


def cases(draw):
    from hypothesis import strategies as st

    nd = draw(st.integers(2, 6))
    sizes = st.sampled_from([1, 7, 100, 4096, 4097, 65536, 300_000, 1_500_000])
    datasets = []
    for _ in range(nd):
        at = draw(st.sampled_from([[0], [0], [1], [0, 1]]))
        datasets.append({"size": draw(sizes), "at": at})
    script = []
    for _ in range(draw(st.integers(3, 12))):
        di = draw(st.integers(0, nd - 1))
        src = draw(st.sampled_from(datasets[di]["at"]))
        if draw(st.integers(0, 3)) == 0:
            script.append(["fetch", di, src])
        else:
            script.append(["transmit", di, src, 1 - src])
    return {"datasets": datasets, "script": script}
