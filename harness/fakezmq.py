"""In-memory replacement for the handful of zmq calls cascade uses (comms.py, entrypoint.py, gateway).

A `Net` owns every bound socket's inbox and a list of in-flight messages. Whole multipart messages are the unit
(zmq delivers multipart messages atomically). Depending on `net.mode`:
  "immediate": a sent message is appended to the destination inbox at once (loss-free, ordered);
  "held":      it is appended to `net.inflight` and the harness decides its fate with deliver/drop/duplicate,
               except for messages whose destination is in `net.reliable` (host-local, loss-free by contract).

`Poller.poll(timeout)` on an empty inbox advances the net's virtual clock by the timeout and returns [].
A blocking `recv` on an empty inbox calls `net.on_block(socket)` (lock-step coroutines park there).
"""

from __future__ import annotations

from typing import Any, Callable

PUSH, PULL, REQ, REP = 8, 7, 3, 4
LINGER = 17
POLLIN = 1


class WouldBlock(Exception):
    pass


class Net:
    def __init__(self) -> None:
        self.inbox: dict[str, list[list[bytes]]] = {}
        self.bound: dict[str, "Socket"] = {}
        self.inflight: list[dict] = []
        self.mode = "immediate"
        self.reliable: Callable[[str, list[bytes]], bool] = lambda addr, frames: False
        self.clock_ns = 1_000_000_000_000
        self.on_block: Callable[["Socket"], None] | None = None
        self.on_idle: Callable[[Any, Any], None] | None = None
        self.sent_log: list[tuple[str, list[bytes]]] = []
        self.log_sends = False
        self.seq = 0
        self.rep_handlers: dict[str, Callable[[bytes], bytes]] = {}

    # ---- time
    def time_ns(self) -> int:
        return self.clock_ns

    def time(self) -> float:
        return self.clock_ns / 1e9

    def monotonic_ns(self) -> int:
        return self.clock_ns

    def advance_ms(self, ms: float) -> None:
        self.clock_ns += int(ms * 1_000_000)

    # ---- transport
    def transmit(self, addr: str, frames: list[bytes], sender: Any = None) -> None:
        frames = [bytes(f) for f in frames]
        if self.log_sends:
            self.sent_log.append((addr, frames))
        if self.mode == "immediate" or self.reliable(addr, frames):
            self.inbox.setdefault(addr, []).append(frames)
        else:
            self.seq += 1
            self.inflight.append({"dst": addr, "frames": frames, "seq": self.seq, "sender": sender})

    def deliver(self, i: int) -> dict:
        m = self.inflight.pop(i)
        self.inbox.setdefault(m["dst"], []).append(m["frames"])
        return m

    def drop(self, i: int) -> dict:
        return self.inflight.pop(i)

    def duplicate(self, i: int) -> dict:
        m = self.inflight[i]
        self.seq += 1
        self.inflight.append({**m, "seq": self.seq, "dup": True})
        return m

    def pending(self, addr: str) -> int:
        return len(self.inbox.get(addr, []))

    # ---- the module facade
    def module(self) -> "FakeZmqModule":
        return FakeZmqModule(self)


class Socket:
    def __init__(self, net: Net, kind: int):
        self.net = net
        self.kind = kind
        self.addr: str | None = None  # bound address
        self.peer: str | None = None  # connected address
        self.closed = False
        self._req_reply: list[bytes] = []

    def set(self, opt, val) -> None:
        pass

    setsockopt = set

    def bind(self, addr: str) -> None:
        self.addr = addr
        self.net.bound[addr] = self
        self.net.inbox.setdefault(addr, [])

    def bind_to_random_port(self, base: str, *a, **k) -> int:
        port = 20000 + len(self.net.bound)
        self.bind(f"{base}:{port}")
        return port

    def connect(self, addr: str) -> None:
        self.peer = addr

    def send(self, b: bytes, *a, **k) -> None:
        self.send_multipart([b])

    def send_multipart(self, frames, *a, **k) -> None:
        if self.kind == REQ:
            h = self.net.rep_handlers[self.peer]
            self._req_reply.append(h(bytes(frames[0])))
            return
        if self.peer is None:
            raise RuntimeError("send on unconnected fake socket")
        self.net.transmit(self.peer, list(frames), sender=self)

    def _inbox(self) -> list[list[bytes]]:
        return self.net.inbox.setdefault(self.addr, [])

    def recv_multipart(self, *a, **k) -> list[bytes]:
        while not self._inbox():
            if self.net.on_block is None:
                raise WouldBlock(self.addr)
            self.net.on_block(self)
        return self._inbox().pop(0)

    def recv(self, *a, **k) -> bytes:
        if self.kind == REQ:
            return self._req_reply.pop(0)
        fr = self.recv_multipart()
        return fr[0]

    def poll(self, timeout=None, flags=POLLIN) -> int:
        if self.kind == REQ:
            return POLLIN if self._req_reply else 0
        if self._inbox():
            return POLLIN
        if timeout:
            self.net.advance_ms(timeout)
        return 0

    def close(self, *a, **k) -> None:
        self.closed = True


class Context:
    def __init__(self, net: Net):
        self.net = net

    def socket(self, kind: int) -> Socket:
        return Socket(self.net, kind)

    def term(self) -> None:
        pass

    destroy = term


class Poller:
    def __init__(self, net: Net):
        self.net = net
        self.socks: list[Socket] = []

    def register(self, sock: Socket, flags=POLLIN) -> None:
        if sock not in self.socks:
            self.socks.append(sock)

    def unregister(self, sock: Socket) -> None:
        self.socks.remove(sock)

    def poll(self, timeout=None):
        ready = [(s, POLLIN) for s in self.socks if s._inbox()]
        if not ready and self.net.on_idle is not None and (timeout is None or timeout > 0):
            # lock-step mode: hand control to the driver; on resume either something arrived or the timeout fires
            self.net.on_idle(self, timeout)
            ready = [(s, POLLIN) for s in self.socks if s._inbox()]
        if not ready and timeout:
            self.net.advance_ms(timeout)
        return ready


class FakeZmqModule:
    PUSH, PULL, REQ, REP, LINGER, POLLIN = PUSH, PULL, REQ, REP, LINGER, POLLIN

    def __init__(self, net: Net):
        self.net = net
        self._ctx = Context(net)
        self.Socket = Socket

    def Context(self, *a, **k) -> Context:  # noqa: N802
        return self._ctx

    def Poller(self) -> Poller:  # noqa: N802
        return Poller(self.net)


class patched:
    """Context manager: routes cascade.executor.comms (and optionally other modules' `zmq`) to a Net."""

    def __init__(self, net: Net, modules: list = (), clock: bool = True):
        self.net = net
        self.modules = list(modules)
        self.clock = clock
        self._saved: list[tuple[Any, str, Any]] = []

    def _set(self, obj, name, val):
        self._saved.append((obj, name, getattr(obj, name)))
        setattr(obj, name, val)

    def __enter__(self):
        import cascade.executor.comms as comms

        fz = self.net.module()
        self._set(comms, "zmq", fz)
        self._set(comms, "get_context", lambda: fz._ctx)
        if self.clock:
            self._set(comms, "time", self.net)
        for m in self.modules:
            self._set(m, "zmq", fz)
        return fz

    def __exit__(self, *a):
        for obj, name, val in reversed(self._saved):
            setattr(obj, name, val)
        return False
