"""In-memory per-host stand-in for cascade.shm.client (allocate/get/purge/ConflictError), tracking writers, open readers and
purges so that 'read after purge', 'read before the writer closed' and 'purge while a read is open' are observable facts."""

from __future__ import annotations


class ConflictError(Exception):
    pass


class ShmFault(Exception):
    pass


class _Buf:
    def __init__(self, store: "HostStore", key: str, data: bytearray, deser_fun: str, writer: bool):
        self.store = store
        self.key = key
        self.data = data
        self.deser_fun = deser_fun
        self.writer = writer
        self.closed = False
        self.l = len(data)

    def view(self) -> memoryview:
        if self.closed:
            raise ValueError("shm already closed!")
        mv = memoryview(self.data)
        return mv if self.writer else mv.toreadonly()

    def close(self) -> None:
        if self.closed:
            return
        self.closed = True
        if self.writer:
            self.store.entries[self.key]["written"] = True
        else:
            self.store.open_reads[self.key] = self.store.open_reads.get(self.key, 1) - 1


class HostStore:
    def __init__(self, host: str):
        self.host = host
        self.entries: dict[str, dict] = {}
        self.open_reads: dict[str, int] = {}
        self.purged: set[str] = set()
        self.events: list[tuple] = []

    def allocate(self, key: str, l: int, deser_fun: str, timeout_sec: float = 60.0) -> _Buf:
        if key in self.entries:
            raise ConflictError()
        if l <= 0:
            # what the real client does: the store grants the request, then SharedMemory(create=True, size=0) raises
            raise ValueError("'size' must be a positive number different from zero")
        data = bytearray(l)
        self.entries[key] = {"data": data, "deser_fun": deser_fun, "written": False}
        self.events.append(("allocate", key, l))
        return _Buf(self, key, data, deser_fun, True)

    def get(self, key: str, timeout_sec: float = 60.0) -> _Buf:
        e = self.entries.get(key)
        if e is None:
            self.events.append(("get-missing", key))
            raise ValueError(f"shm get of missing key {key} at {self.host}" + (" (purged earlier)" if key in self.purged else ""))
        if not e["written"]:
            self.events.append(("get-unwritten", key))
            raise ShmFault(f"shm get of {key} at {self.host} before its writer closed")
        self.open_reads[key] = self.open_reads.get(key, 0) + 1
        return _Buf(self, key, e["data"], e["deser_fun"], False)

    def purge(self, key: str) -> None:
        if key in self.entries:
            if self.open_reads.get(key, 0) > 0:
                self.events.append(("purge-during-read", key))
            del self.entries[key]
        else:
            self.events.append(("purge-missing", key))
        self.purged.add(key)

    def has(self, key: str) -> bool:
        e = self.entries.get(key)
        return bool(e and e["written"])
