"""History machine over the real cascade.shm.dataset.Manager on the real /dev/shm.

Real: Manager (admission, status machine, eviction trigger, delayed purge), algorithms.lottery, Disk._page_out/_page_in (run
synchronously when the history says a job completes), client.AllocatedBuffer (real segments).
Harness-owned: a lazy disk (submitted jobs wait until a 'complete' operation finishes one, successfully or as a failure), a virtual
clock, deterministic reader ids. The model is a dict written from the statements of C08/C09: it changes only on granted requests
and completed disk jobs; which datasets get evicted is *observed* (policy is not asserted), only its safety is.
"""

from __future__ import annotations

import glob
import os
import shutil
import tempfile
from typing import Any

from hypothesis import strategies as st

from . import REPO  # noqa: F401

import cascade.shm.client as shm_client  # noqa: E402
import cascade.shm.dataset as dataset  # noqa: E402
import cascade.shm.disk as disk  # noqa: E402

KEYS = ["a", "b", "c", "d", "e", "f"]
FIFTEEN_MIN_NS = int(15 * 60 * 1e9)
RESIDENT = ("created", "in_memory", "paging_out", "paged_in")


class _Clock:
    def __init__(self) -> None:
        self.ns = 1_700_000_000_000_000_000

    def time_ns(self) -> int:
        return self.ns

    def time(self) -> float:
        return self.ns / 1e9


class _Uuid:
    def __init__(self) -> None:
        self.n = 0

    def uuid4(self):
        self.n += 1
        return f"{self.n:08x}-0000"


class _Root:
    def __init__(self, name: str):
        self.name = name


class LazyDisk:
    """Same interface as disk.Disk; jobs run (the real _page_out/_page_in code) only when the history completes them."""

    def __init__(self) -> None:
        self.dir = tempfile.mkdtemp(prefix="verif-shm-")
        self.root = _Root(self.dir)
        self.jobs: list[dict] = []
        self.seq = 0

    def page_out(self, shmid: str, callback) -> None:
        self.seq += 1
        self.jobs.append({"kind": "out", "shmid": shmid, "cb": callback, "seq": self.seq})

    def page_in(self, shmid: str, size: int, callback) -> None:
        self.seq += 1
        self.jobs.append({"kind": "in", "shmid": shmid, "size": size, "cb": callback, "seq": self.seq})

    def run_io(self, i: int, ok: bool, mid=None) -> None:
        """First half of a job: the real disk/segment work of Disk._page_out/_page_in; the completion callback into the Manager is
        captured and delivered later (run_cb). This lets a history put a client request between the two halves, as a real disk
        thread can be pre-empted there. `mid`, if given, is called once at the moment the real code opens the spill file -- i.e.
        after _page_out attached to the segment and before it unlinks it, after _page_in created the segment and before it copied
        the bytes: a third pre-emption point, inside the disk work itself."""
        job = self.jobs[i]
        if job.get("phase") == "cb":
            return
        job["phase"] = "io"
        if mid is not None:
            fired = [False]

            def _open(*a, **k):
                if not fired[0]:
                    fired[0] = True
                    mid()
                return open(*a, **k)

            disk.open = _open  # module global shadows the builtin for the code in cascade.shm.disk only
        real_root = self.root
        if not ok:  # realistic failure: the spill directory is not writable / the spilled file is gone
            self.root = _Root(os.path.join(self.dir, "does-not-exist"))
        got: list = []
        try:
            if job["kind"] == "out":
                disk.Disk._page_out(self, job["shmid"], got.append)
            else:
                disk.Disk._page_in(self, job["shmid"], job["size"], got.append)
        finally:
            self.root = real_root
            if mid is not None:
                del disk.open
        job["phase"] = "cb"
        job["result"] = got[0] if got else False

    def run_cb(self, i: int) -> dict:
        job = self.jobs.pop(i)
        job["cb"](job["result"])
        return job

    def complete(self, i: int, ok: bool) -> dict:
        self.run_io(i, ok)
        return self.run_cb(i)

    def atexit(self) -> None:
        shutil.rmtree(self.dir, ignore_errors=True)

    def __getattr__(self, name: str):
        # anything else the Disk class offers (a method added by a later version of the library) runs as the real code does,
        # synchronously, against this object's spill directory
        attr = getattr(disk.Disk, name, None)
        if attr is None:
            raise AttributeError(name)
        if callable(attr):
            import functools

            return functools.partial(attr, self)
        return attr


class SelfDeadlock(BaseException):  # not an Exception: the store's catch-all handlers must not swallow it
    pass


class _CheckedLock:
    """threading.Lock look-alike for the Manager's two locks. Every request and every disk-job half of a history runs to completion
    on the one harness thread before the next begins, so a BLOCKING acquire of a lock that is held can only be waiting for its own
    caller: in the real store that thread never returns (the locks are not re-entrant). It is reported instead of being waited for."""

    def __init__(self, name: str):
        import threading

        self._l = threading.Lock()
        self.name = name

    def acquire(self, blocking: bool = True, timeout: float = -1):
        if blocking and self._l.locked():
            raise SelfDeadlock(f"blocking acquire of {self.name} while it is held by the same flow of control: the thread would wait for ever")
        return self._l.acquire(blocking, timeout) if blocking else self._l.acquire(False)

    def release(self):
        self._l.release()

    def locked(self):
        return self._l.locked()

    def __enter__(self):
        self.acquire()
        return self

    def __exit__(self, *a):
        self.release()


_case_no = [0]


class _Done(Exception):
    pass


class _FakeUdp:
    def __init__(self) -> None:
        self.inq: list[bytes] = []
        self.out: list[bytes] = []

    def recvfrom(self, n):
        if not self.inq:
            raise _Done()
        return self.inq.pop(0), ("client", 1)

    def sendto(self, b, addr):
        self.out.append(b)

    def close(self):
        pass


class ViaServer:
    """Routes every request through the real server.LocalServer.start handler and the api codec (fake datagram socket)."""

    def __init__(self, manager):
        import cascade.shm.api as api
        import cascade.shm.server as server

        self.api = api
        self.srv = object.__new__(server.LocalServer)
        self.srv.sock = _FakeUdp()
        self.srv.manager = manager

    def _rt(self, msg):
        self.srv.sock.inq.append(self.api.ser(msg))
        try:
            self.srv.start()
        except _Done:
            pass
        if len(self.srv.sock.out) != 1:
            raise RuntimeError(f"server sent {len(self.srv.sock.out)} responses to one request")
        return self.api.deser(self.srv.sock.out.pop())

    @staticmethod
    def _raise(err: str):
        if "KeyError" in err:
            raise KeyError(err)
        raise RuntimeError(err)

    def add(self, key, size, deser_fun):
        r = self._rt(self.api.AllocateRequest(key=key, l=size, deser_fun=deser_fun))
        if isinstance(r, self.api.OkResponse):
            self._raise(r.error)
        return r.shmid, r.error

    def get(self, key):
        r = self._rt(self.api.GetRequest(key=key))
        if isinstance(r, self.api.OkResponse):
            self._raise(r.error)
        return r.shmid, r.l, r.rdid, r.deser_fun, r.error

    def close_callback(self, key, rdid):
        r = self._rt(self.api.CloseCallback(key=key, rdid=rdid))
        if r.error:
            self._raise(r.error)

    def purge(self, key):
        r = self._rt(self.api.PurgeRequest(key=key))
        if r.error:
            self._raise(r.error)

    def free_space(self) -> int:
        return self._rt(self.api.FreeSpaceRequest()).free_space

# the harness unlinks every segment it creates itself; the tracker process would only add "KeyError" noise for segments the store
# unlinks and unregisters a second time
import multiprocessing.resource_tracker as _rt  # noqa: E402

_rt.register = lambda *a, **k: None
_rt.unregister = lambda *a, **k: None


def content(key_idx: int, gen: int, size: int) -> bytes:
    return bytes(((gen * 37 + key_idx * 11 + i * 7) % 251) + 1 for i in range(size))


# ------------------------------------------------------------------------------------------------ generator

@st.composite
def histories(draw, max_ops: int = 50):
    # byte-sized stores for the accounting, a few page-sized ones (the disk code moves data in 4096-byte chunks)
    cap = draw(st.sampled_from([1, 2, 3, 4, 6, 8, 10, 12, 16, 24, 48, 96, 1, 2, 3, 4, 6, 8, 10, 12, 16, 24, 48, 96, 8192, 12288]))
    paged = cap >= 4096
    n = draw(st.integers(5, max_ops))
    ops = []
    kinds = ["alloc", "alloc", "alloc", "finish", "finish", "get", "get", "get", "close", "close", "purge", "purge", "job_ok", "job_ok",
             "job_ok", "job_io", "job_io", "job_mid", "job_fail", "job_fail_in", "clock", "alloc_p", "get_p", "free"]
    churn = draw(st.booleans())
    nkeys = len(KEYS)
    if churn:
        # few keys, datasets about as large as the store, persistent requests: every request evicts, keys are written, spilled, read
        # back, purged and written again
        nkeys = draw(st.integers(2, 3))
        kinds = ["write", "write", "write", "roundtrip", "roundtrip", "roundtrip", "roundtrip", "rewrite", "rewrite", "roundtrip_fail", "alloc_p", "finish",
                 "get_p", "close", "purge", "job_ok", "get", "alloc", "clock", "job_fail", "job_fail_in", "job_mid"]
    for _ in range(n):
        k = draw(st.sampled_from(kinds))
        if k in ("write", "rewrite"):
            ops.append([k, draw(st.integers(0, 59)), draw(st.sampled_from([4096, 8192, 4095, 4097, cap])) if paged else draw(st.integers(cap // 2 + 1, cap))])
        elif k in ("roundtrip", "roundtrip_fail"):
            ops.append([k, draw(st.integers(0, 59))])
        elif k in ("alloc", "alloc_p"):
            if paged:
                size = draw(st.sampled_from([4096, 4096, 8192, 4095, 4097, 1, cap]))
            elif churn:
                size = draw(st.integers(cap // 2 + 1, cap))
            else:
                size = draw(st.one_of(st.integers(max(1, cap // 3), max(1, (2 * cap) // 3)), st.integers(1, max(1, cap // 2)),
                                      st.integers(1, cap + 2)))
            ops.append([k, draw(st.integers(0, 59)), size])
        elif k in ("finish", "get", "get_p", "purge"):
            ops.append([k, draw(st.integers(0, 59))])
        elif k == "close":
            ops.append([k, draw(st.integers(0, 59)), draw(st.integers(0, 3))])
        elif k in ("job_ok", "job_fail", "job_io", "job_fail_in"):
            ops.append([k, draw(st.integers(0, 5))])
        elif k == "job_mid":
            # the disk half of a job with one client request executed in the middle of it (see LazyDisk.run_io)
            ops.append([k, draw(st.integers(0, 5)), draw(st.sampled_from(["purge_same", "purge_same", "purge_same", "get_same", "purge", "get",
                                                                         "alloc", "finish", "close"])),
                        draw(st.integers(0, 59)), draw(st.integers(1, max(1, cap)))])
        elif k == "clock":
            ops.append([k, draw(st.sampled_from(["ms", "ms", "min", "16min"]))])
        else:
            ops.append([k])
    configured = draw(st.sampled_from([None, None, None, None, cap + 1, 3 * cap, 1 << 62]))
    return {"capacity": cap, "ops": ops, "via_server": draw(st.integers(0, 2)) == 0, "nkeys": nkeys, "configured": configured}


# ------------------------------------------------------------------------------------------------ machine

class Machine:
    def __init__(self, capacity: int, known_f20: bool = False, via_server: bool = False, nkeys: int = len(KEYS),
                 configured: int | None = None):
        self.nkeys = nkeys
        _case_no[0] += 1
        self.prefix = f"v{os.getpid() % 100000}x{_case_no[0] % 100000}"
        self.capacity = capacity
        self.clock = _Clock()
        self.breaches: list[tuple[str, str, str]] = []
        self._saved = (dataset.time, dataset.uuid, dataset.get_capacity, dataset.disk.Disk)
        dataset.time = self.clock
        dataset.uuid = _Uuid()
        # `configured` > capacity: the store is configured with more than /dev/shm offers (what the mount offers is `capacity`);
        # it documents that it trims itself to what is available
        dataset.get_capacity = (lambda: 1 << 50) if configured is None else (lambda: capacity)
        self.ldisk = LazyDisk()
        dataset.disk.Disk = lambda: self.ldisk
        try:
            self.m = dataset.Manager(self.prefix, capacity if configured is None else configured)
        finally:
            dataset.disk.Disk = self._saved[3]
        self.m.pageout_one = _CheckedLock("pageout_one")
        self.m.pageout_all = _CheckedLock("pageout_all")
        self.api = ViaServer(self.m) if via_server else self.m
        self.via_server = via_server
        # model
        self.model: dict[str, dict] = {}  # key -> {state, size, gen, bytes, readers: {rdid: t}, delayed_purge}
        self.gen = 0
        self.writers: dict[str, Any] = {}  # key -> (AllocatedBuffer, gen)
        self.readers: dict[str, list] = {k: [] for k in KEYS}  # key -> [(buf, rdid, t, gen)]
        self.shmid2key: dict[str, str] = {}
        self.jobs_model: list[dict] = []  # parallel to ldisk.jobs: {key, gen, kind}
        self.stats = {"grants": 0, "waits": 0, "pageouts_done": 0, "pageins_done": 0, "failed_out": 0, "failed_in": 0, "reads_ok": 0,
                      "read_after_cycle": 0, "wait_then_granted": 0, "purge_during_read": 0, "purge_with_pending_pageout": 0,
                      "max_transitional": 0, "grant_after_pageout": 0, "purge_with_pending_pagein": 0, "evict_blocked_by_reader": 0, "stale_jobs": 0, "ops": 0,
                      "persistent_unsatisfied": 0}
        self.known_f20 = known_f20
        self.f20_hits = 0

    # ---- helpers
    def breach(self, fam: str, clause: str, msg: str) -> None:
        self.breaches.append((fam, clause, msg))

    def resident_total(self) -> int:
        return sum(d["size"] for d in self.model.values() if d["state"] in RESIDENT)

    def model_free(self) -> int:
        return self.capacity - self.resident_total()

    def seg_path(self, shmid: str) -> str:
        return "/dev/shm/" + shmid

    def _sync_new_jobs(self) -> None:
        """Observes disk jobs the manager issued since the last look and checks that each is a legal thing to do."""
        while len(self.jobs_model) < len(self.ldisk.jobs):
            job = self.ldisk.jobs[len(self.jobs_model)]
            key = self.shmid2key.get(job["shmid"])
            d = self.model.get(key) if key else None
            if d is None:
                self.breach("C09", "job-for-unknown", f"disk job {job['kind']} issued for unknown segment {job['shmid']}")
                self.jobs_model.append({"key": key, "gen": -1, "kind": job["kind"]})
                continue
            if job["kind"] == "out":
                fresh = [t for t in d["readers"].values() if self.clock.ns - t <= FIFTEEN_MIN_NS]
                if d["state"] == "in_memory" and not fresh:
                    pass
                elif d["state"] == "created" and self.clock.ns - d["created"] > FIFTEEN_MIN_NS:
                    # stale writer (presumed dead): the store documents that it may give up on it. What such a dataset contains
                    # afterwards is unspecified -- its bytes are not compared any more.
                    d["abandoned"] = True
                elif d["state"] == "in_memory" and fresh:
                    self.breach("C09", "pageout-while-read", f"key {key} is paged out while a reader younger than 15 min holds it")
                else:
                    self.breach("C09", "pageout-illegal-state", f"key {key} paged out in model state {d['state']}")
                d["state"] = "paging_out"
            else:
                if d["state"] == "on_disk":
                    if d["size"] > self.model_free():
                        self.breach("C08", "pagein-without-space", f"page-in of {key} ({d['size']}) issued with {self.model_free()} free")
                    d["state"] = "paged_in"  # space is reserved from now on
                else:
                    self.breach("C09", "pagein-illegal-state", f"page-in job for key {key} in model state {d['state']}")
            self.jobs_model.append({"key": key, "gen": d["gen"], "kind": job["kind"]})

    # ---- operations
    def op_alloc(self, ki: int, size: int, persistent: bool = False) -> None:
        key = KEYS[ki]
        rounds = 4 if persistent else 1
        first_wait = False
        for r in range(rounds):
            free_before = self.model_free()
            evictable = sum(d["size"] for d in self.model.values() if d["state"] == "in_memory" and not d["readers"])
            try:
                shmid, err = self.api.add(key, size, "deser")
            except Exception as e:
                self.breach("C08", "alloc-raises", f"allocate({key},{size}) raised {type(e).__name__}: {e}")
                return
            self._sync_new_jobs()
            if key in self.model:
                if err != "conflict":
                    self.breach("C09", "conflict-not-reported", f"allocate of existing key {key} answered {err!r}/{shmid!r}")
                return
            if size > self.capacity:
                if not err or err == "wait":
                    self.breach("C08", "oversize-not-refused", f"allocate({size}) with capacity {self.capacity} answered {err!r}")
                return
            if err == "wait":
                self.stats["waits"] += 1
                first_wait = True
                if size <= free_before:
                    self.breach("C09", "wait-although-fits", f"allocate({key},{size}) answered wait with {free_before} bytes free")
                    return
                if not persistent:
                    return
                if r == rounds - 1:
                    if size <= free_before + evictable:
                        self.breach("C09", "unreachable", f"allocate({key},{size}) still answers wait after {rounds} rounds of completing all "
                                    f"disk jobs although free={free_before} + idle evictable={evictable} suffice")
                    else:
                        self.stats["persistent_unsatisfied"] += 1
                    return
                self._complete_all()
                continue
            if err:
                self.breach("C08", "alloc-error", f"allocate({key},{size}) answered {err!r} (free {free_before})")
                return
            # granted
            if size > free_before:
                self.breach("C08", "granted-early", f"allocate({key},{size}) granted with only {free_before} bytes free (capacity {self.capacity})")
            self.gen += 1
            self.shmid2key[shmid] = key
            self.model[key] = {"state": "created", "size": size, "gen": self.gen, "bytes": content(ki, self.gen, size), "readers": {},
                               "delayed": False, "created": self.clock.ns, "cycles": 0}
            try:
                buf = shm_client.AllocatedBuffer(shmid, size, True, None, "deser")
            except Exception as e:
                self.breach("C08", "segment-create-failed", f"granted segment {shmid} for {key} cannot be created: {type(e).__name__}: {e}")
                return
            self.writers[key] = (buf, self.gen)
            self.stats["grants"] += 1
            if self.stats["pageouts_done"]:
                self.stats["grant_after_pageout"] += 1
            if first_wait:
                self.stats["wait_then_granted"] += 1
            return

    def _complete_all(self) -> None:
        guard = 0
        while self.ldisk.jobs and guard < 50:
            self.op_job(0, True)
            guard += 1

    def op_finish(self, ki: int) -> None:
        key = KEYS[ki]
        if key not in self.writers:
            return
        buf, gen = self.writers.pop(key)
        d = self.model.get(key)
        current = d is not None and d["gen"] == gen
        try:
            if current and d["state"] == "created":
                buf.view()[: d["size"]] = d["bytes"]
            buf.close()
        except Exception:
            pass
        try:
            self.api.close_callback(key, "")
            ok = True
        except Exception:
            ok = False
        if current and d["state"] == "created":
            if not ok:
                self.breach("C09", "writer-close-rejected", f"closing the writer of {key} raised")
            d["state"] = "in_memory"
        # closing a writer of a purged / evicted dataset may be rejected: nothing is demanded

    def op_get(self, ki: int, persistent: bool = False) -> None:
        key = KEYS[ki]
        rounds = 4 if persistent else 1
        waited = False
        for r in range(rounds):
            d = self.model.get(key)
            free_before = self.model_free()
            evictable = sum(x["size"] for k2, x in self.model.items() if x["state"] == "in_memory" and not x["readers"] and k2 != key)
            try:
                shmid, l, rdid, deser, err = self.api.get(key)
            except KeyError:
                if d is not None:
                    self.breach("C09", "known-key-missing", f"get({key}) says unknown but the model has it in state {d['state']}")
                return
            except Exception as e:
                if d is not None and d["state"] == "on_disk" and d["size"] > free_before:
                    self.breach("C08", "not-answered-wait", f"get({key}) of a spilled dataset that does not fit ({d['size']} > {free_before} "
                                f"free) raised {type(e).__name__}: {e} instead of answering wait")
                self.breach("C09", "get-raises", f"get({key}) raised {type(e).__name__}: {e}")
                return
            self._sync_new_jobs()
            if d is None:
                self.breach("C09", "unknown-key-served", f"get({key}) answered {err!r} for a key that does not exist")
                return
            if err == "wait":
                self.stats["waits"] += 1
                waited = True
                if d["state"] == "in_memory":
                    self.breach("C09", "wait-on-readable", f"get({key}) answers wait although the dataset is readable")
                    return
                if not persistent:
                    return
                if r == rounds - 1:
                    if d["state"] in ("on_disk",) and d["size"] <= free_before + evictable:
                        self.breach("C09", "unreachable", f"get({key}) still answers wait after {rounds} rounds of completing all disk jobs "
                                    f"although free={free_before} + idle evictable={evictable} suffice for {d['size']}")
                    else:
                        self.stats["persistent_unsatisfied"] += 1
                    return
                self._complete_all()
                if key not in self.model:
                    return
                continue
            if err:
                self.breach("C09", "get-error", f"get({key}) answered {err!r}")
                return
            # granted
            if d["state"] != "in_memory":
                self.breach("C09", "read-in-state", f"get({key}) granted while the dataset is {d['state']} (not readable)")
                return
            if l != d["size"]:
                self.breach("C09", "size-differs", f"get({key}) reports size {l}, written {d['size']}")
            try:
                buf = shm_client.AllocatedBuffer(shmid, l, False, None, deser)
                got = bytes(buf.view())
            except Exception as e:
                self.breach("C09", "segment-gone", f"get({key}) granted but segment {shmid} cannot be read: {type(e).__name__}: {e}")
                return
            if got != d["bytes"] and not d.get("abandoned"):
                self.breach("C09", "bytes-differ", f"key {key}: read {got[:16]!r}... written {d['bytes'][:16]!r}... (after {d['cycles']} page cycles)")
            d["readers"][rdid] = self.clock.ns
            self.readers[key].append((buf, rdid, self.clock.ns, d["gen"]))
            self.stats["reads_ok"] += 1
            if d["cycles"]:
                self.stats["read_after_cycle"] += 1
            if waited:
                self.stats["wait_then_granted"] += 1
            return

    def op_close(self, ki: int, which: int) -> None:
        key = KEYS[ki]
        if not self.readers[key]:
            return
        buf, rdid, t, gen = self.readers[key].pop(which % len(self.readers[key]))
        try:
            buf.close()
        except Exception:
            pass
        d = self.model.get(key)
        current = d is not None and d["gen"] == gen
        try:
            self.api.close_callback(key, rdid)
            ok = True
        except Exception as e:
            ok = False
            if current and d["state"] == "in_memory":
                self.breach("C09", "reader-close-rejected", f"closing a reader of {key} raised {type(e).__name__}: {e}")
        if current:
            if not ok and self.clock.ns - t > FIFTEEN_MIN_NS:
                # a reader older than the staleness window is presumed dead by the store; if its dataset was evicted meanwhile the
                # store rejects its late close and keeps counting it. Unspecified territory: mirror the store.
                self.stats["stale_reader_close_rejected"] = self.stats.get("stale_reader_close_rejected", 0) + 1
                return
            d["readers"].pop(rdid, None)
            if d["delayed"] and not d["readers"] and d["state"] == "in_memory" and ok:
                self._model_drop(key, "delayed purge")

    def _model_drop(self, key: str, why: str) -> None:
        d = self.model.pop(key)
        shmid = next((s for s, k in self.shmid2key.items() if k == key), None)
        if shmid and os.path.exists(self.seg_path(shmid)):
            self.breach("C09", "segment-left-after-purge", f"{why} of {key}: segment {shmid} still exists")
        if key in self.m.datasets:
            self.breach("C09", "key-left-after-purge", f"{why} of {key}: the store still knows the key")
        del d

    def op_purge(self, ki: int) -> None:
        key = KEYS[ki]
        d = self.model.get(key)
        try:
            self.api.purge(key)
        except KeyError:
            if d is not None:
                self.breach("C09", "known-key-missing", f"purge({key}) says unknown but the model has it in state {d['state']}")
            return
        except Exception as e:
            self.breach("C09", "purge-raises", f"purge({key}) raised {type(e).__name__}: {e}")
            return
        if d is None:
            return
        if d["readers"]:
            self.stats["purge_during_read"] += 1
            d["delayed"] = True
            return
        if d["state"] == "on_disk":
            return  # the store keeps spilled datasets (documented: 'skipping purge because is on disk')
        if d["state"] in ("paging_out", "paged_in"):
            # a disk job is working on the dataset: the purge takes effect when the job has completed (as for a purge during a read)
            self.stats["purge_with_pending_pageout" if d["state"] == "paging_out" else "purge_with_pending_pagein"] += 1
            if key not in self.m.datasets:
                # the store chose to drop it at once: allowed; whatever its pending job does afterwards is judged by the invariants
                self.model.pop(key)
                return
            d["delayed"] = True
            return
        # created / in_memory: the segment is released and the key forgotten
        if key in self.m.datasets:
            # the store refused (e.g. segment missing for a paged_in dataset): nothing was returned
            return
        self.model.pop(key)

    def op_job(self, i: int, ok: bool) -> None:
        if not self.ldisk.jobs:
            return
        i = i % len(self.ldisk.jobs)
        jm = self.jobs_model[i]
        key = jm["key"]
        d = self.model.get(key)
        if self.ldisk.jobs[i].get("phase") == "cb":
            ok = bool(self.ldisk.jobs[i]["result"])  # the disk half already ran: its outcome stands
        stale = d is None or d["gen"] != jm["gen"] or (jm["kind"] == "out" and d["state"] != "paging_out") or \
            (jm["kind"] == "in" and d["state"] != "paged_in")
        if stale:
            self.stats["stale_jobs"] += 1
            # known finding F20 is about a stale job whose DISK HALF still has to run (it then works on whatever segment carries the
            # name now). A job whose disk half ran before its dataset went away only has its callback left; on the unchanged code that
            # callback is harmless, so it is not covered by the finding and runs under the normal invariants.
            if self.known_f20 and self.ldisk.jobs[i].get("phase") != "cb":
                # known finding F20: completing this job corrupts accounting; count it, drop the job, keep searching
                self.f20_hits += 1
                self.ldisk.jobs.pop(i)
                self.jobs_model.pop(i)
                # the real thread pool would still run the callback's lock bookkeeping: emulate its neutral part
                try:
                    with self.m.pageout_one:
                        if jm["kind"] == "out":
                            self.m.pageout_count -= 1
                            if self.m.pageout_count == 0 and self.m.pageout_all.locked():
                                self.m.pageout_all.release()
                except Exception:
                    pass
                return
        self.jobs_model.pop(i)
        try:
            self.ldisk.complete(i, ok)
        except Exception as e:
            self.breach("C09", "job-raises", f"disk job {jm} raised {type(e).__name__}: {e}")
        self._sync_new_jobs()
        if stale:
            return  # the job belonged to a dataset that no longer exists: it must not change anything (invariants check that)
        if jm["kind"] == "out":
            if ok:
                d["state"] = "on_disk"
                d["cycles"] += 1
                self.stats["pageouts_done"] += 1
            else:
                self.stats["failed_out"] += 1
                self._after_failed_job(key)
        else:
            if ok:
                d["state"] = "in_memory"
                self.stats["pageins_done"] += 1
                if d["delayed"] and not d["readers"]:
                    self._model_drop(key, "purge delayed until the page-in completed")
            else:
                self.stats["failed_in"] += 1
                self._after_failed_job(key)

    def _after_failed_job(self, key: str) -> None:
        # what the store does with a dataset whose disk job failed is not specified beyond "marking bad": it either forgets it
        # (space returned) or keeps it in its transitional state (space still reserved, e.g. because a stale reader delays the
        # purge). Observe which; the capacity invariants then decide whether the books are right.
        if key in self.m.datasets:
            self.stats["zombie_after_failed_job"] = self.stats.get("zombie_after_failed_job", 0) + 1
        else:
            self.model.pop(key, None)

    def op_job_io(self, i: int) -> None:
        """Only the disk/segment half of a pending job; its callback into the Manager stays pending."""
        if not self.ldisk.jobs:
            return
        i = i % len(self.ldisk.jobs)
        jm = self.jobs_model[i]
        d = self.model.get(jm["key"])
        stale = d is None or d["gen"] != jm["gen"] or (jm["kind"] == "out" and d["state"] != "paging_out") or \
            (jm["kind"] == "in" and d["state"] != "paged_in")
        if stale and self.known_f20:
            return  # left to op_job, which drops it
        try:
            self.ldisk.run_io(i, True)
            self.stats["job_split"] = self.stats.get("job_split", 0) + 1
        except Exception as e:
            self.breach("C09", "job-raises", f"disk job {jm} raised {type(e).__name__}: {e}")

    def op_job_mid(self, i: int, sub: str, raw: int, size: int) -> None:
        """The disk half of a pending job with one (non-persistent) client request executed in the middle of it."""
        if not self.ldisk.jobs:
            return
        i = i % len(self.ldisk.jobs)
        if self.ldisk.jobs[i].get("phase") == "cb":
            return
        jm = self.jobs_model[i]
        d = self.model.get(jm["key"])
        stale = d is None or d["gen"] != jm["gen"] or (jm["kind"] == "out" and d["state"] != "paging_out") or \
            (jm["kind"] == "in" and d["state"] != "paged_in")
        if stale and self.known_f20:
            return  # left to op_job, which drops it
        same = KEYS.index(jm["key"])
        if sub == "purge_same":
            op = ["purge", same]
        elif sub == "get_same":
            op = ["get", same]
        elif sub == "alloc":
            op = ["alloc", self._sel("alloc", raw), size]
        elif sub == "close":
            op = ["close", self._sel("close", raw), raw % 4]
        else:
            op = [sub, self._sel(sub, raw)]

        def mid():
            self.stats["job_mid"] = self.stats.get("job_mid", 0) + 1
            if op[0] == "purge" and op[1] == same:
                self.stats["purge_inside_disk_job"] = self.stats.get("purge_inside_disk_job", 0) + 1
                self.ldisk.jobs[i]["interrupted"] = True
            self._one(op)

        try:
            self.ldisk.run_io(i, True, mid)
        except Exception as e:
            self.breach("C09", "job-raises", f"disk job {jm} raised {type(e).__name__}: {e}")

    def op_clock(self, what: str) -> None:
        self.clock.ns += {"ms": 1_000_000, "min": 60 * 10**9, "16min": 16 * 60 * 10**9}[what]

    # ---- invariants
    def check(self, op) -> None:
        total = self.resident_total()
        if total > self.capacity:
            self.breach("C08", "over-capacity", f"after {op}: resident datasets total {total} > capacity {self.capacity}")
        if self.m.free_space != self.capacity - total:
            self.breach("C08", "free-space", f"after {op}: store reports free_space={self.m.free_space}, capacity {self.capacity} - resident "
                        f"{total} = {self.capacity - total}")
        phys = 0
        for p in glob.glob(f"/dev/shm/{self.prefix}*"):
            try:
                phys += os.path.getsize(p)
            except OSError:
                pass
        if phys > self.capacity:
            self.breach("C08", "physical-over-capacity", f"after {op}: segments on /dev/shm total {phys} > capacity {self.capacity}")
        trans = sum(1 for d in self.model.values() if d["state"] in ("created", "paging_out", "paged_in"))
        self.stats["max_transitional"] = max(self.stats["max_transitional"], trans)
        # protection in use
        for key, lst in self.readers.items():
            d = self.model.get(key)
            for (buf, rdid, t, gen) in lst:
                if d is None or d["gen"] != gen:
                    continue
                if self.clock.ns - t > FIFTEEN_MIN_NS:
                    continue
                real = self.m.datasets.get(key)
                if real is None or real.status != dataset.DatasetStatus.in_memory:
                    self.breach("C09", "not-protected", f"after {op}: key {key} has a fresh reader but the store has it as "
                                f"{real.status.name if real else 'unknown'}")
                elif not os.path.exists(self.seg_path(real.shmid)):
                    self.breach("C09", "unlinked-in-use", f"after {op}: segment of {key} was unlinked while a fresh reader holds it")
        # model vs store statuses
        for key, d in self.model.items():
            real = self.m.datasets.get(key)
            if real is None:
                self.breach("C09", "key-lost", f"after {op}: key {key} ({d['state']}) unknown to the store")
            elif real.status.name != d["state"]:
                self.breach("C09", "status-differs", f"after {op}: key {key} is {real.status.name} in the store, {d['state']} by the history")

    def _sel(self, kind: str, raw: int) -> int:
        """Resolves a generated selector to a key index: prefers keys for which the operation is meaningful right now (this only
        steers the history; every resolved operation is still a legal client request)."""
        keys = list(enumerate(KEYS[: self.nkeys]))
        if kind in ("alloc", "alloc_p"):
            cand = [i for i, k in keys if k not in self.model] if raw % 4 else []
        elif kind == "finish":
            cand = [i for i, k in enumerate(KEYS) if k in self.writers]
        elif kind in ("get", "get_p"):
            cand = [i for i, k in enumerate(KEYS) if k in self.model] if raw % 5 else []
        elif kind == "close":
            cand = [i for i, k in enumerate(KEYS) if self.readers[k]]
        elif kind == "purge":
            cand = [i for i, k in enumerate(KEYS) if k in self.model] if raw % 5 else []
        else:
            cand = []
        if cand:
            return cand[(raw // 5) % len(cand)]
        return raw % self.nkeys

    # ---- run / teardown
    def run(self, ops: list) -> None:
        for op in ops:
            self.stats["ops"] += 1
            k = op[0]
            if k in ("write", "rewrite", "roundtrip", "roundtrip_fail"):
                # macro operations: short scripts of ordinary client requests (the invariants are checked after each request)
                if k == "write":
                    ki = self._sel("alloc_p", op[1])
                    script = [["alloc_p", ki, op[2]], ["finish", ki]]
                elif k == "rewrite":
                    ki = self._sel("purge", op[1])
                    script = [["purge", ki], ["alloc_p", ki, op[2]], ["finish", ki]]
                elif k == "roundtrip_fail":
                    # ask for a dataset (if it is on disk this issues its page-in), let that page-in fail, ask again
                    ki = self._sel("get_p", op[1])
                    script = [["get", ki], ["job_fail_in", 0], ["get", ki]]
                else:
                    ki = self._sel("get_p", op[1])
                    script = [["get_p", ki], ["close", ki, 0]]
                for sub in script:
                    self._guarded(sub)
                    self.check(sub)
                    if self.breaches:
                        return
                continue
            if k in ("alloc", "alloc_p", "finish", "get", "get_p", "close", "purge"):
                op = [k, self._sel(k, op[1])] + list(op[2:])
            self._guarded(op)
            self.check(op)
            if self.breaches:
                return

    def _guarded(self, op) -> None:
        try:
            self._one(op)
        except SelfDeadlock as e:
            self.breach("C09", "deadlock", f"during {op}: {e} -- every later request that needs this lock (eviction, purge, job "
                        f"completion) waits for ever")

    def _one(self, op) -> None:
        if True:
            k = op[0]
            if k == "alloc":
                self.op_alloc(op[1], op[2])
            elif k == "alloc_p":
                self.op_alloc(op[1], op[2], True)
            elif k == "finish":
                self.op_finish(op[1])
            elif k == "get":
                self.op_get(op[1])
            elif k == "get_p":
                self.op_get(op[1], True)
            elif k == "close":
                self.op_close(op[1], op[2])
            elif k == "purge":
                self.op_purge(op[1])
            elif k == "job_ok":
                self.op_job(op[1], True)
            elif k == "job_fail":
                self.op_job(op[1], False)
            elif k == "job_fail_in":
                # fail a pending page-IN job (they are rarer than page-outs and short-lived: picked by kind, not by position)
                ins = [j for j, jm in enumerate(self.jobs_model) if jm["kind"] == "in" and j < len(self.ldisk.jobs)]
                if ins:
                    self.op_job(ins[op[1] % len(ins)], False)
            elif k == "job_io":
                self.op_job_io(op[1])
            elif k == "job_mid":
                self.op_job_mid(op[1], op[2], op[3], op[4])
            elif k == "clock":
                self.op_clock(op[1])
            elif k == "free":
                if self.via_server:
                    fs = self.api.free_space()
                    if fs != self.m.free_space:
                        self.breach("C08", "free-space-protocol", f"free-space query answers {fs}, the store has {self.m.free_space}")

    def teardown(self) -> None:
        dataset.time, dataset.uuid, dataset.get_capacity, dataset.disk.Disk = self._saved
        for key, (buf, _g) in list(self.writers.items()):
            try:
                buf.close()
            except Exception:
                pass
        for lst in self.readers.values():
            for (buf, *_r) in lst:
                try:
                    buf.close()
                except Exception:
                    pass
        for p in glob.glob(f"/dev/shm/{self.prefix}*"):
            try:
                os.unlink(p)
            except OSError:
                pass
        self.ldisk.atexit()


def run_history(case: dict, known_f20: bool = False) -> Machine:
    m = Machine(case["capacity"], known_f20, bool(case.get("via_server")), int(case.get("nkeys", len(KEYS))), case.get("configured"))
    try:
        m.run(case["ops"])
    finally:
        m.teardown()
    return m
