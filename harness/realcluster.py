"""Real local cluster under fault injection: executors are real processes (fork), real zmq over loopback TCP, real shm server,
real data server, real workers. One case runs in its own session (process group) on a private port block and host-name prefix,
so leftovers are attributable and can be killed by the harness before the next case.
"""

from __future__ import annotations

import glob
import json
import os
import signal
import sys
import tempfile
import threading
import time
import traceback

from . import REPO  # noqa: F401


def fault_fn(task_name: str, nout: int, fault: dict | None):
    """Recording task callable (as harness.genjob.make_fn) that can execute a fault when it is the victim."""

    def fn(*args, **kwargs):
        import hashlib
        import os as _os
        import signal as _signal
        import sys as _sys

        h = hashlib.blake2b(repr((args, sorted(kwargs.items()))).encode(), digest_size=8).hexdigest()
        base = task_name + ":" + h

        def boom():
            with open(fault["marker"], "w") as f:
                f.write(str(_os.getpid()))
            k = fault["kind"]
            if k == "stubborn":
                # a task body that does not let go: it ignores SIGTERM and keeps running (a native library with its own signal
                # handling, a long system call); whoever tears the cluster down has to get rid of its worker all the same
                import time as _time

                _signal.signal(_signal.SIGTERM, _signal.SIG_IGN)
                _time.sleep(150)
                return
            if k == "raise_late":
                import time as _time

                _time.sleep(2.0)  # the sibling task is well under way by now
                raise RuntimeError("injected task failure")
            if k == "raise":
                raise RuntimeError("injected task failure")
            if k == "raise_empty":
                raise RuntimeError  # an exception whose str() is empty
            if k == "assert":
                assert False
            if k == "exit":
                _sys.exit(fault.get("code", 3))
            if k == "os_exit":
                _os._exit(fault.get("code", 3))
            if k == "sigkill":
                _os.kill(_os.getpid(), _signal.SIGKILL)
            if k in ("term_shm", "kill_shm"):
                # the task body stops its own host's shm server while it holds the read buffers of its inputs, then carries on
                ppid = _os.getppid()
                kids = []
                for p in _os.listdir("/proc"):
                    if p.isdigit():
                        try:
                            with open("/proc/" + p + "/stat") as f:
                                st = f.read()
                            if int(st[st.rindex(")") + 2:].split()[1]) == ppid:
                                kids.append(int(p))
                        except Exception:
                            pass
                if kids:
                    _os.kill(min(kids), _signal.SIGTERM if k == "term_shm" else _signal.SIGKILL)
                    import time as _time

                    _time.sleep(0.5)

        if fault is not None and fault["at"] == "before":
            boom()
        n = kwargs.get("_n", nout)  # see harness.genjob.make_fn
        if n == 1:
            return base

        def gen():
            for i in range(n):
                if fault is not None and fault["at"] == "between" and i == 1:
                    boom()
                yield base + "#" + str(i)
            if fault is not None and fault["at"] == "after":
                boom()  # every output was yielded (and published) already

        return gen()

    return fn


def _descendants(root_pid: int) -> list[int]:
    kids: dict[int, list[int]] = {}
    for p in os.listdir("/proc"):
        if not p.isdigit():
            continue
        try:
            with open(f"/proc/{p}/stat") as f:
                s = f.read()
            ppid = int(s[s.rindex(")") + 2:].split()[1])
            kids.setdefault(ppid, []).append(int(p))
        except Exception:
            continue
    out, todo = [], [root_pid]
    while todo:
        x = todo.pop()
        for k in kids.get(x, []):
            out.append(k)
            todo.append(k)
    return out


def _children_in_order(pid: int) -> list[int]:
    return sorted(p for p in _descendants(pid) if _ppid(p) == pid)


def _ppid(pid: int) -> int:
    try:
        with open(f"/proc/{pid}/stat") as f:
            s = f.read()
        return int(s[s.rindex(")") + 2:].split()[1])
    except Exception:
        return -1


def _is_zombie(pid: int) -> bool:
    try:
        with open(f"/proc/{pid}/stat") as f:
            s = f.read()
        return s[s.rindex(")") + 2:].split()[0] == "Z"
    except Exception:
        return True


def case_runner(plan: dict, conn) -> None:
    """Runs in its own process + session. Sends one result dict through conn."""
    os.setsid()
    res: dict = {"outcome": None}
    try:
        import logging.config

        logging.config.dictConfig = lambda cfg: None  # executors inherit this (fork): keep the logs quiet
        from multiprocessing import get_context

        from cascade.controller.impl import run
        from cascade.executor.bridge import Bridge
        from cascade.executor.executor import Executor
        from cascade.scheduler.graph import precompute

        from .genjob import build_job

        faults = {}
        if plan["fault"]["where"] == "task":
            faults[plan["fault"]["task"]] = {"kind": plan["fault"]["kind"], "at": plan["fault"]["at"], "marker": plan["marker"],
                                             "code": plan["fault"].get("code", 3)}
        if plan["fault"].get("stubborn"):
            faults[plan["fault"]["stubborn"]] = {"kind": "stubborn", "at": "before", "marker": plan["marker"] + ".sibling", "code": 0}
        job = build_job(plan["job"], fn_factory=fault_fn, faults=faults)
        pre = precompute(job)
        base = plan["port"]
        ctrl = f"tcp://localhost:{base}"
        ctx = get_context("fork")
        procs = []

        def launch(i):
            ex = Executor(job, ctrl, plan["workers"], f"{plan['prefix']}h{i}{plan.get('host_suffix', '')}", base + 1 + i * 10, None)
            ex.register()
            ex.recv_loop()

        for i in range(plan["hosts"]):
            p = ctx.Process(target=launch, args=(i,))
            p.start()
            procs.append(p)
        res["executor_pids"] = [p.pid for p in procs]
        bridge = Bridge(ctrl, plan["hosts"])
        # external kill: when the controller has seen k events, kill the chosen helper of host 0 .. n-1
        if plan["fault"]["where"] == "helper":
            orig = bridge.recv_events
            seen = [0]
            done = [False]

            def rec():
                evs = orig()
                seen[0] += len(evs)
                if not done[0] and seen[0] >= plan["fault"]["after_events"]:
                    done[0] = True
                    kids = _children_in_order(procs[plan["fault"]["host"] % len(procs)].pid)
                    # creation order: shm server, data server, workers...
                    idx = {"shm": 0, "data": 1}.get(plan["fault"]["helper"], 2 + plan["fault"].get("worker", 0))
                    if idx < len(kids):
                        try:
                            os.kill(kids[idx], getattr(signal, plan["fault"]["signal"]))
                            res["killed"] = kids[idx]
                            with open(plan["marker"], "w") as f:
                                f.write(str(kids[idx]))
                        except ProcessLookupError:
                            pass
                return evs

            bridge.recv_events = rec
        t0 = time.time()
        try:
            state = run(job, bridge, pre)
            res["outcome"] = "returned"
            res["outputs"] = {repr(k): v for k, v in state.outputs.items()}
        except BaseException as e:  # noqa: BLE001
            res["outcome"] = "raised"
            res["exc"] = f"{type(e).__name__}: {e}"[:500]
        res["run_s"] = round(time.time() - t0, 2)
        conn.send(res)  # the verdict on run() first: the parent's hang detection ends here
        # teardown observation
        grace = plan.get("grace_s", 12)
        t1 = time.time()
        while time.time() - t1 < grace:
            alive = [p for p in procs if p.is_alive()]
            if not alive:
                break
            time.sleep(0.1)
        left = []
        for pid in _descendants(os.getpid()):
            if not _is_zombie(pid):
                left.append(pid)
        segs = glob.glob(f"/dev/shm/sCasc{plan['prefix']}h*")
        conn.send({"teardown": True, "left_processes": left, "left_executors": [p.pid for p in procs if p.is_alive()],
                   "left_segments": [os.path.basename(s) for s in segs], "teardown_s": round(time.time() - t1, 2)})
    except BaseException:  # noqa: BLE001
        try:
            conn.send({"outcome": "harness-error", "exc": traceback.format_exc()[-1500:]})
        except Exception:
            pass
    finally:
        try:
            conn.close()
        except Exception:
            pass
        # kill whatever is left in our session
        try:
            for pid in _descendants(os.getpid()):
                try:
                    os.kill(pid, signal.SIGKILL)
                except Exception:
                    pass
            for s in glob.glob(f"/dev/shm/sCasc{plan['prefix']}h*"):
                try:
                    os.unlink(s)
                except Exception:
                    pass
            for s in glob.glob(f"/tmp/{plan['prefix']}h*.socket"):
                try:
                    os.unlink(s)
                except Exception:
                    pass
        finally:
            os._exit(0)


def free_port_block(base: int, width: int = 40) -> int:
    """Returns `base` if every TCP port of [base, base+width) can be bound right now, else the first later block (steps of 997,
    wrapping inside 1100..32700) that can: two runs of a check at the same time (mutation probes, a sweep next to a thorough run),
    or a foreign listener, must not make a fault-free cluster fail to start."""
    import socket

    def ok(b: int) -> bool:
        for p in range(b, b + width):
            s = socket.socket(socket.AF_INET, socket.SOCK_STREAM)
            try:
                s.bind(("", p))
            except OSError:
                return False
            finally:
                s.close()
        return True

    b = base
    for _ in range(40):
        if ok(b):
            return b
        b = 1100 + (b - 1100 + 997) % (32700 - width - 1100)
    return base


def run_plan(plan: dict, deadline_s: float) -> dict:
    """Runs one case; returns {'verdict': 'returned'|'raised'|'hang'|'harness-error', ...}."""
    import multiprocessing as mp

    plan = dict(plan)
    plan["port"] = free_port_block(plan["port"])
    ctx = mp.get_context("fork")
    pr, pw = ctx.Pipe(duplex=False)
    p = ctx.Process(target=case_runner, args=(plan, pw))
    p.start()
    pw.close()
    out: dict = {"verdict": "hang"}
    t0 = time.time()
    try:
        if pr.poll(deadline_s):
            res = pr.recv()
            out.update(res)
            out["verdict"] = res.get("outcome") or "harness-error"
            if pr.poll(plan.get("grace_s", 12) + 10):
                try:
                    out.update(pr.recv())
                except EOFError:
                    pass
    except EOFError:
        out["verdict"] = "harness-error"
        out["exc"] = "case runner died"
    finally:
        out["wall_s"] = round(time.time() - t0, 2)
        # make sure nothing of this case survives
        try:
            os.killpg(p.pid, signal.SIGKILL)
        except Exception:
            pass
        for pid in _descendants(p.pid):
            try:
                os.kill(pid, signal.SIGKILL)
            except Exception:
                pass
        try:
            p.kill()
        except Exception:
            pass
        p.join(5)
        for s in glob.glob(f"/dev/shm/sCasc{plan['prefix']}h*"):
            try:
                os.unlink(s)
            except Exception:
                pass
        for s in glob.glob(f"/tmp/{plan['prefix']}h*.socket"):
            try:
                os.unlink(s)
            except Exception:
                pass
    return out
