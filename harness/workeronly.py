"""Worker-only harness for C02: one real worker loop (entrypoint + runner + Memory) as a lock-step coroutine, fed an arbitrary
generated interleaving of task sequences, publication notices (required and unrelated, before / between / after the command,
repeated) and purges. Removes the constraint of the cluster simulation that notices arrive in executor order.

Preconditions kept (what the real system guarantees): a notice for a dataset is delivered only after the dataset physically is in
the host's store; the next task sequence is sent only after the previous one finished; a dataset is purged only after every local
consumer that was or will be dispatched here has finished.
"""

from __future__ import annotations

from typing import Any

import cloudpickle
from hypothesis import strategies as st

from . import clustersim
from .clustersim import _CUR, _patch_once, _SimNet
from .common import Chooser, fingerprint
from .fakeshm import HostStore
from .genjob import build_job, job_specs, same_value
from .lockstep import Coroutine, current
from .refeval import evaluate

import cascade.executor.runner.entrypoint as entrypoint  # noqa: E402
import cascade.executor.runner.memory as memory  # noqa: E402
import cascade.executor.serde as serde  # noqa: E402
from cascade.executor.msg import DatasetPublished, DatasetPurge, TaskFailure, TaskSequence, WorkerShutdown  # noqa: E402
from cascade.low.core import DatasetId, WorkerId  # noqa: E402
from cascade.low.views import param_source  # noqa: E402


@st.composite
def cases(draw):
    spec = draw(job_specs(max_tasks=8, min_tasks=1, gpu=False, ext="none"))
    n = len(spec["tasks"])
    # tasks that run on this worker, in topological (index) order, grouped into sequences
    mine = sorted(draw(st.lists(st.integers(0, n - 1), min_size=1, max_size=n, unique=True)))
    seqs: list[list[int]] = []
    for t in mine:
        if seqs and draw(st.integers(0, 3)) == 0:
            seqs[-1].append(t)
        else:
            seqs.append([t])
    return {"job": spec, "seqs": seqs, "decisions": draw(st.lists(st.integers(0, 1 << 16), max_size=80)), "tail": draw(st.integers(0, 1 << 30))}


class _MiniSim:
    """The subset of ClusterSim that the patched worker-side hooks need."""

    def __init__(self) -> None:
        self.net = _SimNet(self)
        self.current_host = "h0"
        self.store = {"h0": HostStore("h0")}
        self.q_exec: dict[str, dict[str, list]] = {"h0": {}}
        self.started: list = []
        self.finished_seqs: list = []
        self.ended: list = []

    def on_task_start(self, worker, task) -> None:
        self.started.append(task)

    def on_task_end(self, worker, task) -> None:
        self.ended.append(task)

    def on_sequence_end(self, worker, seq) -> None:
        self.finished_seqs.append(list(seq.tasks))

    def on_round(self, state, assignments) -> None:
        pass


def run_case(c: dict, holder: dict | None = None) -> tuple[bool, list[str], Any, list[tuple[str, str]]]:
    """Returns (nontrivial, tags, trace fingerprint, breaches)."""
    _patch_once()
    job = build_job(c["job"])
    names = [t["name"] for t in c["job"]["tasks"]]
    ref = evaluate(job)
    sim = _MiniSim()
    _CUR["sim"] = sim
    ch = Chooser(prefix=c.get("log") or c["decisions"], tail_seed=None if c.get("log") else c["tail"])
    if holder is not None:
        holder["log"] = ch.log
    breaches: list[tuple[str, str]] = []
    w = WorkerId("h0", "w0")
    store = sim.store["h0"]
    waddr = entrypoint.worker_address(w)

    def on_block(sock):
        co = current()
        co.park()

    sim.net.on_block = on_block
    ps = param_source(job.edges)
    rc = entrypoint.RunnerContext(workerId=w, job=job, callback="exec:h0", param_source=ps)
    co = Coroutine(lambda: entrypoint.entrypoint(rc), name=repr(w))
    co.resume()
    inputs_of: dict[str, set] = {t: set() for t in job.tasks}
    for e in job.edges:
        inputs_of[e.sink_task].add(e.source)
    seqs = [[names[i] for i in s] for s in c["seqs"]]
    local_tasks = {t for s in seqs for t in s}
    all_ds = [DatasetId(t, o) for t in job.tasks for o in job.tasks[t].definition.output_schema]
    external = [ds for ds in all_ds if ds.task not in local_tasks]
    announced: set = set()
    physically: set = set()
    stats = {"deferred": 0, "repeated_notice": 0, "unrelated_notice": 0, "purges": 0, "early_notice": 0, "multi_task_seq": 0}
    trace: list[str] = []

    def deliver(m) -> None:
        sim.net.inbox.setdefault(waddr, []).append([serde.ser_message(m)])
        sim.current_host = "h0"
        co.resume()
        if co.done:
            breaches.append(("worker-died", f"worker loop ended on {type(m).__name__}: {type(co.exc).__name__}: {co.exc}"))

    def put(ds: DatasetId) -> None:
        b = cloudpickle.dumps(ref[(ds.task, ds.output)])
        buf = store.allocate(memory.ds2shmid(ds), len(b), "cloudpickle.loads")
        buf.view()[: len(b)] = b
        buf.close()
        physically.add(ds)

    pending_seq = None
    done_tasks: set = set()
    si = 0
    steps = 0
    while steps < 300 and not co.done and not breaches:
        steps += 1
        if pending_seq is not None and all(t in sim.ended for t in pending_seq):
            done_tasks |= set(pending_seq)
            pending_seq = None
        opts = []
        if pending_seq is None and si < len(seqs):
            opts.append("seq")
        not_here = [ds for ds in external if ds not in physically]
        if not_here:
            opts.append("arrive")
        # the executor echoes every publication to all its workers, the origin included: locally produced datasets get notices too
        can_announce = [ds for ds in all_ds if store.has(memory.ds2shmid(ds)) and (ds, "purged") not in announced]
        if can_announce:
            opts.append("notice")
        # purge: datasets physically here whose local consumers (in any sequence) have all finished
        purgeable = [ds for ds in all_ds if store.has(memory.ds2shmid(ds)) and (ds, "purged") not in announced
                     and all(cons in done_tasks for cons in local_tasks if ds in inputs_of[cons])
                     and not (pending_seq and any(ds in inputs_of[t] for t in pending_seq))]
        if purgeable:
            opts.append("purge")
        if not opts:
            break
        if pending_seq is None and si >= len(seqs) and ch.choose(3) == 0:
            break
        o = opts[ch.choose(len(opts))]
        n_started = len(sim.started)
        if o == "arrive":
            ds = not_here[ch.choose(len(not_here))]
            put(ds)
            trace.append(f"arrive:{ds}")
        elif o == "notice":
            ds = can_announce[ch.choose(len(can_announce))]
            if ds in announced:
                stats["repeated_notice"] += 1
            needed_now = pending_seq is not None and any(ds in inputs_of[t] for t in pending_seq)
            if not any(ds in inputs_of[t] for t in local_tasks):
                stats["unrelated_notice"] += 1
            elif pending_seq is None:
                stats["early_notice"] += 1
            announced.add(ds)
            trace.append(f"notice:{ds}")
            deliver(DatasetPublished(ds=ds, origin="h9", transmit_idx=1))
            if needed_now:
                missing = {d for t in pending_seq for d in inputs_of[t] if d.task not in pending_seq} - announced
                if not missing and not all(t in sim.started for t in pending_seq[:1]):
                    breaches.append(("not-started-after-last-notice", f"sequence {pending_seq}: every required notice was delivered but the worker did not start it"))
        elif o == "purge":
            ds = purgeable[ch.choose(len(purgeable))]
            announced.add((ds, "purged"))
            stats["purges"] += 1
            trace.append(f"purge:{ds}")
            deliver(DatasetPurge(ds=ds))
            store.purge(memory.ds2shmid(ds))
            physically.discard(ds)
        else:
            seq = seqs[si]
            si += 1
            pending_seq = seq
            if len(seq) > 1:
                stats["multi_task_seq"] += 1
            need = {d for t in seq for d in inputs_of[t] if d.task not in seq}
            missing = need - {d for d in announced if not isinstance(d, tuple)}
            if missing:
                stats["deferred"] += 1
            trace.append(f"seq:{seq}")
            outs = {DatasetId(t, o2) for t in seq for o2 in job.tasks[t].definition.output_schema}
            deliver(TaskSequence(worker=w, tasks=list(seq), publish=outs))
            for d in outs:
                physically.add(d)
            if not missing and seq[0] not in sim.started:
                breaches.append(("not-started-when-ready", f"sequence {seq} arrived with every input announced but was not started"))
            if missing and any(t in sim.started[n_started:] for t in seq):
                breaches.append(("started-before-notice", f"sequence {seq} started although {sorted(map(repr, missing))} were not announced"))
        # a task must never start while one of its external inputs is un-announced
        for t in sim.started[n_started:]:
            seq_of = next((s for s in seqs if t in s), [t])
            un = [d for d in inputs_of[t] if d.task not in seq_of and d not in announced]
            if un:
                breaches.append(("started-before-notice", f"task {t} started although {un} were not announced to the worker"))
    # drain: deliver everything still needed so that every dispatched sequence can run
    if not breaches and not co.done and pending_seq is not None:
        for ds in all_ds:
            if ds in external and not store.has(memory.ds2shmid(ds)) and (ds, "purged") not in announced:
                put(ds)
            if store.has(memory.ds2shmid(ds)) and ds not in announced and (ds, "purged") not in announced:
                announced.add(ds)
                deliver(DatasetPublished(ds=ds, origin="h9", transmit_idx=1))
        if not all(t in sim.ended for t in pending_seq) and not co.done:
            breaches.append(("sequence-never-ran", f"sequence {pending_seq} did not run although every input was delivered and announced"))
    # exactly once, right values, no failures
    dispatched = [t for s in seqs[:si] for t in s]
    for t in set(sim.started):
        if sim.started.count(t) != 1:
            breaches.append(("executed-twice", f"task {t} executed {sim.started.count(t)} times"))
    for t in sim.started:
        if t not in dispatched:
            breaches.append(("executed-undispatched", f"task {t} executed but never dispatched"))
    fails = [m for q in sim.q_exec["h0"].values() for m in q if isinstance(m, TaskFailure)]
    if fails and not breaches:
        breaches.append(("task-failure", f"worker reported {fails[0]!r} in a history where every precondition was kept"))
    for ev in store.events:
        if ev[0] in ("get-missing", "get-unwritten"):
            breaches.append(("read-before-arrival", f"worker read dataset key {ev[1]} that was not there"))
    pubs = [m for q in sim.q_exec["h0"].values() for m in q if isinstance(m, DatasetPublished)]
    for t in sim.ended:
        for o2 in job.tasks[t].definition.output_schema:
            ds = DatasetId(t, o2)
            e = store.entries.get(memory.ds2shmid(ds))
            if (ds, "purged") in announced:
                continue
            if e is None:
                breaches.append(("output-not-published", f"task {t} finished but {ds} is not in the host's store"))
            elif not same_value(cloudpickle.loads(bytes(e["data"])), ref[(t, o2)]):
                breaches.append(("output-wrong", f"{ds} = {cloudpickle.loads(bytes(e['data']))!r}, reference {ref[(t, o2)]!r}"))
            if sum(1 for m in pubs if m.ds == ds) != 1:
                breaches.append(("publication-count", f"{ds} announced {sum(1 for m in pubs if m.ds == ds)} times by the worker"))
    # stop the worker
    if not co.done:
        sim.net.inbox.setdefault(waddr, []).append([serde.ser_message(WorkerShutdown())])
        co.resume()
    nt = stats["deferred"] > 0 and (stats["repeated_notice"] + stats["unrelated_notice"] + stats["purges"]) > 0
    tags = ["worker_only"] + [f"wo_{k}" for k, v in stats.items() if v]
    return nt, tags, fingerprint(trace), breaches
