#!/bin/bash
# runs the repository's pinned suite (guard off) and prints the summary line
cd /repo && env -u ECMWF_EARTHKIT_WORKFLOWS_VERIF /venv/bin/python -m pytest -ra -q -p no:cacheprovider --timeout=900 --continue-on-collection-errors 2>&1 | tail -3
