#!/bin/bash
# tools/keep_seed.sh <PROP> <seed-id> "<needs>"  -- confirms a sub-agent's change in a fresh scratch worktree and keeps it under seeded/<seed-id>/
set -u
P=$1; ID=$2; NEEDS=${3:-}
PFX=${SEED_PREFIX:-seed}; SRC=/tmp/$PFX-$P-out
[ -f $SRC/patch.diff ] || git -C /tmp/$PFX-$P diff > $SRC/patch.diff
D=/verif/seeded/$ID; mkdir -p $D
cp $SRC/patch.diff $D/patch.diff; cp $SRC/demo.py $D/demo.py; cp $SRC/notes.md $D/notes.md 2>/dev/null
WT=$(mktemp -d /tmp/verif-keep-XXXX)/wt
git -C /repo worktree add -q --detach $WT HEAD
sed -i "s#/tmp/$PFX-$P-out#$D#g; s#/tmp/$PFX-$P#$WT#g" $D/demo.py 2>/dev/null
( cd $WT && PYTHONPATH=$WT/src timeout 300 /venv/bin/python $D/demo.py >/tmp/keep-clean.log 2>&1 ); RC_CLEAN=$?
git -C $WT apply $D/patch.diff; RC_APPLY=$?
( cd $WT && PYTHONPATH=$WT/src timeout 300 /venv/bin/python $D/demo.py >/tmp/keep-bad.log 2>&1 ); RC_BAD=$?
TESTS=$(cd $WT && PYTHONPATH=$WT/src timeout 900 /venv/bin/python -m pytest -q -p no:cacheprovider --timeout=900 --continue-on-collection-errors tests/earthkit_workflows 2>&1 | tail -1)
FILES=$(git -C $WT diff --stat | tail -1)
git -C /repo worktree remove --force $WT; rmdir $(dirname $WT) 2>/dev/null; git -C /repo worktree prune
# restore generic paths in the kept demo
sed -i "s#$WT#/path/to/worktree#g" $D/demo.py
echo "demo clean rc=$RC_CLEAN, patch applies rc=$RC_APPLY, demo with change rc=$RC_BAD, tests: $TESTS, diff: $FILES"
/venv/bin/python - "$P" "$ID" "$NEEDS" "$RC_CLEAN" "$RC_BAD" "$TESTS" "$FILES" <<'PY'
import json,sys
p,i,needs,rc0,rc1,tests,files=sys.argv[1:8]
json.dump({"property":p,"id":i,"needs_to_manifest":needs,"confirmed":{"demo_rc_without_change":int(rc0),"demo_rc_with_change":int(rc1),
  "existing_tests_with_change":tests.strip(),"diffstat":files.strip(),
  "how":"fresh scratch worktree of /repo HEAD: demo run, git apply patch.diff, demo run, pytest tests/earthkit_workflows (--continue-on-collection-errors); worktree removed"},
  "origin":"independent sub-agent given only the property text"}, open(f"/verif/seeded/{i}/meta.json","w"), indent=1)
PY
