#!/bin/bash
# re-evaluates every kept seeded change against the quick tier of its property, in LANES parallel lanes (default 3);
# seeds of the real-cluster checks (C01, C05) share one lane of their own. Output: one line per seed on stdout.
cd /verif
LANES=${LANES:-3}
run() { tools/seeded.py "$1" 2>&1 | grep -v "KNOWN\|resource_tracker\|warnings.warn" | tail -1 | cut -c1-200; }
export -f run
(for d in seeded/C01*/ seeded/C05*/; do run $(basename $d); done) &
ls -d seeded/*/ | xargs -n1 basename | grep -v "^C01\|^C05" | xargs -P $LANES -I{} bash -c 'run {}'
wait
