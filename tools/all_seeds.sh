#!/bin/bash
# re-evaluates every kept seeded change against the quick tier of its property
cd /verif
for d in seeded/*/; do
  id=$(basename $d)
  case $id in C05*) ;; *) tools/seeded.py $id 2>&1 | grep -v KNOWN | tail -1 | cut -c1-160;; esac
done
for d in seeded/C05*/; do tools/seeded.py $(basename $d) 2>&1 | grep -v "KNOWN\|resource_tracker\|warnings.warn" | tail -1 | cut -c1-160; done
