#!/bin/bash
# the tests/cascade suite is shadowed by an unrelated site-packages 'cascade' in the pinned baseline (always_fail there);
# with /repo/src first it runs: expected "2 failed, 10 passed": gateway test_job fails on the pristine tree too; executor test_executor crashes the data server on purpose and asserts the executor stays silent about it, which the healthcheck fix (F17) changes
cd /repo && PYTHONPATH=/repo/src timeout 900 /venv/bin/python -m pytest tests/cascade -q -p no:cacheprovider --timeout=300 2>&1 | grep -E "^=+ .*(passed|failed)" | tail -2
