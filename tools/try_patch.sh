#!/bin/bash
# tools/try_patch.sh <CHECK> <patch-file> [more checks...]  -- applies a patch to a scratch worktree of /repo (never to /repo) and runs the quick tier of the given checks against it
set -u
PATCH=$2; CHECKS="$1 ${@:3}"
TMP=$(mktemp -d /tmp/verif-try-XXXX); WT=$TMP/wt
git -C /repo worktree add -q --detach $WT HEAD
git -C $WT apply $PATCH || { echo "patch does not apply"; git -C /repo worktree remove --force $WT; rm -rf $TMP; exit 2; }
for c in $CHECKS; do
  out=$(cd /verif && VERIF_REPO=$WT PYTHONHASHSEED=0 /venv/bin/python run_check.py $c --tier ${TRY_TIER:-quick} --no-evidence 2>&1)
  rc=$?
  echo "== $c rc=$rc"; echo "$out" | grep -v "resource_tracker\|warnings.warn\|KNOWN-FINDING" | grep -A1 "VIOLATION\|violations=" | head -4 | cut -c1-400
done
git -C /repo worktree remove --force $WT; rm -rf $TMP; git -C /repo worktree prune
