#!/bin/bash
# tools/keep_seed2.sh <PROP> <A|B> <seed-id> "<needs>"   -- round-D layout: /tmp/seedD/out-<PROP>/<X>.patch.diff, <X>.demo.py, <X>.notes.md, worktree /tmp/seedD/wt-<PROP>
# confirms a sub-agent's change in a fresh scratch worktree (demo passes without / fails with the change, pinned tests still pass) and keeps it under seeded/<seed-id>/
set -u
P=$1; X=$2; ID=$3; NEEDS=${4:-}
ROOT=${SEED_ROOT:-/tmp/seedD}; SRC=$ROOT/out-$P; AWT=$ROOT/wt-$P
[ -f $SRC/$X.patch.diff ] || { echo "no $SRC/$X.patch.diff"; exit 2; }
D=/verif/seeded/$ID; mkdir -p $D
cp $SRC/$X.patch.diff $D/patch.diff; cp $SRC/$X.demo.py $D/demo.py; cp $SRC/$X.notes.md $D/notes.md 2>/dev/null
WT=$(mktemp -d /tmp/verif-keep-XXXX)/wt
git -C /repo worktree add -q --detach $WT HEAD
sed -i "s#$SRC#$D#g; s#$AWT#$WT#g" $D/demo.py 2>/dev/null
( cd $WT && PYTHONPATH=$WT/src timeout 300 /venv/bin/python $D/demo.py >/tmp/keep-clean-$P$X.log 2>&1 ); RC_CLEAN=$?
git -C $WT apply $D/patch.diff; RC_APPLY=$?
( cd $WT && PYTHONPATH=$WT/src timeout 300 /venv/bin/python $D/demo.py >/tmp/keep-bad-$P$X.log 2>&1 ); RC_BAD=$?
TESTS=$(cd $WT && PYTHONPATH=$WT/src timeout 900 /venv/bin/python -m pytest tests/earthkit_workflows -q -p no:cacheprovider --timeout=900 --continue-on-collection-errors 2>&1 | tail -1)
FILES=$(git -C $WT diff --stat | tail -1)
git -C /repo worktree remove --force $WT; rmdir $(dirname $WT) 2>/dev/null; git -C /repo worktree prune
sed -i "s#$WT#/path/to/worktree#g" $D/demo.py
echo "$ID: demo clean rc=$RC_CLEAN, patch applies rc=$RC_APPLY, demo with change rc=$RC_BAD, tests: $TESTS, diff: $FILES"
/venv/bin/python - "$P" "$ID" "$NEEDS" "$RC_CLEAN" "$RC_BAD" "$TESTS" "$FILES" <<'PY'
import json,sys
p,i,needs,rc0,rc1,tests,files=sys.argv[1:8]
json.dump({"property":p,"id":i,"needs_to_manifest":needs,"confirmed":{"demo_rc_without_change":int(rc0),"demo_rc_with_change":int(rc1),
  "existing_tests_with_change":tests.strip(),"diffstat":files.strip(),
  "how":"fresh scratch worktree of /repo HEAD: demo run, git apply patch.diff, demo run, the 133 pinned tests (tests/earthkit_workflows) with the worktree src first on the path (the pinned command alone would import /repo/src); tests/cascade compared with the clean tree by tools/reverify_seeds.sh; worktree removed"},
  "origin":"independent sub-agent given only the property record"}, open(f"/verif/seeded/{i}/meta.json","w"), indent=1)
PY
