#!/venv/bin/python
"""Runs the registered quick checks against a seeded change kept under /verif/seeded/<id>/ (patch.diff + meta.json).

  tools/seeded.py <seed-id> [CHECK ...]     applies patch.diff to a scratch copy of /repo (never to /repo itself), runs the quick
                                            tier of the property named in meta.json (or the given checks) with VERIF_REPO pointing
                                            at the copy, prints caught / MISSED, removes the copy.
"""
import json
import os
import shutil
import subprocess
import sys
import tempfile

VERIF = os.path.dirname(os.path.dirname(os.path.abspath(__file__)))


def main() -> int:
    sid = sys.argv[1]
    d = os.path.join(VERIF, "seeded", sid)
    meta = json.load(open(os.path.join(d, "meta.json")))
    checks = sys.argv[2:] or [meta["property"]]
    if str(meta.get("status", "")).startswith(("neutralised", "not reached by design")) and not sys.argv[2:]:
        print(f"{sid}: {meta['status'][:90]}… (skipped)")
        return 0
    tmp = tempfile.mkdtemp(prefix="verif-seed-")
    try:
        subprocess.run(["git", "-C", "/repo", "worktree", "add", "-q", "--detach", os.path.join(tmp, "wt"), "HEAD"], check=True)
        wt = os.path.join(tmp, "wt")
        r = subprocess.run(["git", "-C", wt, "apply", os.path.join(d, "patch.diff")], capture_output=True, text=True)
        if r.returncode != 0:
            print(f"{sid}: patch does not apply: {r.stderr.strip()[:300]}")
            return 2
        rc = 0
        for c in checks:
            env = dict(os.environ, VERIF_REPO=wt, VERIF_SEED=os.environ.get("VERIF_SEED", "1"))
            if os.environ.get("SEED_NO_REGRESSIONS"):
                env["VERIF_NO_REGRESSIONS"] = "1"
            p = subprocess.run([os.path.join(VERIF, "run_check.py"), c, "--tier", os.environ.get("SEED_TIER", "quick"), "--no-evidence"],
                               env=env, capture_output=True, text=True, cwd=VERIF)
            out = p.stdout + p.stderr
            if p.returncode == 1 and "VIOLATION" in out:
                msg = [l for l in out.splitlines() if l.startswith("  ")]
                print(f"{sid} vs {c}: caught -- {msg[0].strip()[:220] if msg else ''}")
            elif p.returncode == 0:
                print(f"{sid} vs {c}: MISSED")
                rc = 1
            else:
                # the last line that says something (Python's resource tracker prints KeyError tracebacks of its own at exit)
                lines = [l for l in out.strip().splitlines() if l.startswith(("HARNESS-ERROR", "harness", "C0", "C1")) or "Error:" in l]
                lines = [l for l in lines if not l.startswith("KeyError: '/")] or out.strip().splitlines()[-1:]
                print(f"{sid} vs {c}: rc={p.returncode} {lines[-1][:200] if lines else ''}")
                rc = 1
        return rc
    finally:
        subprocess.run(["git", "-C", "/repo", "worktree", "remove", "--force", os.path.join(tmp, "wt")], capture_output=True)
        shutil.rmtree(tmp, ignore_errors=True)
        subprocess.run(["git", "-C", "/repo", "worktree", "prune"], capture_output=True)


if __name__ == "__main__":
    sys.exit(main())
