#!/venv/bin/python
"""Writes MANIFEST.json from the per-check metadata in harness/checks/*.py (MANIFEST dict) so that the manifest
always lists exactly the checks that exist."""
import importlib, json, os, sys
VERIF = os.path.dirname(os.path.dirname(os.path.abspath(__file__)))
sys.path.insert(0, VERIF)
import harness  # noqa

ALL = [f"C{i:02d}" for i in range(1, 20)]
checks, na = [], []
NA_REASONS = json.load(open(os.path.join(VERIF, "tools", "not_applicable.json")))
for pid in ALL:
    path = os.path.join(VERIF, "harness", "checks", pid.lower() + ".py")
    if not os.path.exists(path):
        na.append({"property_id": pid, "reason": NA_REASONS.get(pid, "check not built yet (work in progress; see DESIGN.md section 7)")})
        continue
    mod = importlib.import_module(f"harness.checks.{pid.lower()}")
    m = mod.MANIFEST
    checks.append({
        "property_id": pid,
        "quick_cmd": f"PYTHONHASHSEED=0 /venv/bin/python run_check.py {pid} --tier quick",
        "thorough_cmd": f"PYTHONHASHSEED=0 /venv/bin/python run_check.py {pid} --tier thorough",
        "evidence_file": f"evidence/{pid}.json",
        "replay_cmd_template": f"PYTHONHASHSEED=0 /venv/bin/python run_check.py {pid} --replay {{path}}",
        "engine": m["engine"],
        "level_claimed": {"category": mod.LEVEL, "text": m["text"], "design_ref": f"DESIGN.md section 3, {pid}"},
        "level_note": m["note"],
        "technique": m["technique"],
    })
engines = {}
for c in checks:
    engines.setdefault(c["engine"], []).append(c["property_id"])
ENG = json.load(open(os.path.join(VERIF, "tools", "engines.json")))
doc = {
    "version": 1,
    "setup_cmd": "/venv/bin/python -c 'import hypothesis' || /venv/bin/pip install --no-index --find-links /opt/veriftools/wheels hypothesis",
    "hooks": {
        "guard": "ECMWF_EARTHKIT_WORKFLOWS_VERIF",
        "enable": "no source hooks exist: every seam is reached by monkey-patching module attributes from the check process; checks import /repo/src directly (pure Python, nothing to build)",
        "baseline_off_cmd": "cd /repo && /venv/bin/python -m pytest -ra -q -p no:cacheprovider --timeout=900 --continue-on-collection-errors",
        "source_commits": [],
        "add_only": True,
    },
    "engines": [{"name": k, "path": ENG[k]["path"], "serves_properties": v, "kind_free_text": ENG[k]["kind"]} for k, v in engines.items()],
    "checks": checks,
    "not_applicable": na,
    "notes": "All checks: Hypothesis-generated cases against independent oracles; VERIF_SEED seeds every shard; exit 0/1/2 as in DESIGN.md section 1. known_findings.json lists recorded findings and fixed: entries.",
}
json.dump(doc, open(os.path.join(VERIF, "MANIFEST.json"), "w"), indent=1)
print(f"{len(checks)} checks, {len(na)} not claimed")
