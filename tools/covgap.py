#!/venv/bin/python
"""Generator-reach diagnosis: which lines / branches of the code a property is anchored in does its check never execute?

  tools/covgap.py <ID> [--cases N] [--tier quick|thorough] [--files substr,substr]

Runs ONE shard of the check in this process under coverage.py (branch mode, /repo/src only) and prints, for the files named in the
property's anchors (or those matching --files), the executable lines and branch arcs never hit. Purely a diagnostic for widening
generators ("measure what the generator produces"); it decides nothing and writes no evidence.
"""
import argparse
import importlib
import json
import os
import sys

os.environ.setdefault("PYTHONHASHSEED", "0")
VERIF = os.path.dirname(os.path.dirname(os.path.abspath(__file__)))
sys.path.insert(0, VERIF)


def main() -> int:
    ap = argparse.ArgumentParser()
    ap.add_argument("prop")
    ap.add_argument("--cases", type=int, default=300)
    ap.add_argument("--tier", default="quick")
    ap.add_argument("--files", default="")
    ap.add_argument("--seed", type=int, default=1)
    a = ap.parse_args()
    prop = a.prop.upper()
    import coverage

    from harness import common

    src = os.path.join(common.REPO, "src") if hasattr(common, "REPO") else "/repo/src"
    cov = coverage.Coverage(branch=True, source=[src], data_file=None, config_file=False)
    cov.start()
    mod = importlib.import_module(f"harness.checks.{prop.lower()}")
    try:
        st = mod.shard(a.seed * 1000, a.cases, a.tier)
    finally:
        cov.stop()
    print(f"{prop}: evaluations={st.evaluations} nontrivial={len(st.fps)} violations={len(st.violations)}")
    wanted = [s for s in a.files.split(",") if s]
    if not wanted:
        for line in open(os.path.join(VERIF, "properties.jsonl")):
            p = json.loads(line)
            if p["id"] == prop:
                for f in p["anchors"].get("files", []):
                    wanted.append(f.split(":")[0])
    data = cov.get_data()
    for f in sorted(data.measured_files()):
        rel = os.path.relpath(f, src)
        if wanted and not any(w in f or w.endswith(rel) for w in wanted):
            continue
        try:
            an = cov._analyze(f)
        except Exception as e:  # noqa: BLE001
            print(f"-- {rel}: {e}")
            continue
        missing = sorted(an.missing)
        arcs = sorted(an.arcs_missing()) if an.has_arcs else []
        arcs = [(x, y) for (x, y) in arcs if x not in an.missing and x > 0]
        n = len(an.statements)
        print(f"-- {rel}: {n - len(missing)}/{n} lines; missing lines {coverage.misc.format_lines(an.statements, missing) if hasattr(coverage.misc, 'format_lines') else missing}")
        if arcs:
            print(f"     partial branches (line->target never taken): {arcs}")
    return 0


if __name__ == "__main__":
    sys.exit(main())
