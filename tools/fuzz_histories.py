#!/venv/bin/python
"""Coverage-guided campaign (atheris / libFuzzer) over the same generated histories as the C08/C09 checks: the Hypothesis strategy is
driven through `fuzz_one_input`, so libFuzzer's coverage feedback over cascade.shm steers which histories get explored, and the
oracle (model + invariants of harness.shmmachine) sits inside the target.

  tools/fuzz_histories.py <C08|C09> --runs N --seed S --out result.json

Exit 0 always; the JSON says {"runs": N, "violation": null | {"case":..., "msg":..., "clause":...}}. Needs atheris in /verif/.deps
(installed by MANIFEST.setup_cmd from the offline wheelhouse); without it the tool reports {"skipped": "..."}.
"""

import argparse
import json
import os
import sys

VERIF = os.path.dirname(os.path.dirname(os.path.abspath(__file__)))
sys.path.insert(0, os.path.join(VERIF, ".deps"))
sys.path.insert(0, VERIF)


def main() -> None:
    ap = argparse.ArgumentParser()
    ap.add_argument("prop")
    ap.add_argument("--runs", type=int, default=20000)
    ap.add_argument("--seed", type=int, default=1)
    ap.add_argument("--out", required=True)
    a = ap.parse_args()
    family = a.prop.upper()
    result = {"property": family, "runs": 0, "violation": None}

    def dump():
        with open(a.out, "w") as f:
            json.dump(result, f)

    try:
        import atheris
    except Exception as e:  # noqa: BLE001
        result["skipped"] = f"atheris not importable: {e}"
        dump()
        return
    import harness  # noqa: F401
    with atheris.instrument_imports(include=["cascade.shm"]):
        import cascade.shm.algorithms  # noqa: F401
        import cascade.shm.dataset  # noqa: F401
        import cascade.shm.disk  # noqa: F401
    from hypothesis import HealthCheck, given, settings

    from harness import common, shmmachine

    known = common.known_findings().listed("C08", "F20") or common.known_findings().listed("C09", "F20")

    @settings(database=None, deadline=None, suppress_health_check=list(HealthCheck))
    @given(shmmachine.histories())
    def target(case):
        result["runs"] += 1
        if result["runs"] % 500 == 0:
            dump()  # libFuzzer ends the process without running atexit handlers
        m = shmmachine.run_history(case, known)
        mine = [b for b in m.breaches if b[0] == family]
        if mine:
            result["violation"] = {"case": common.canonical(case), "msg": mine[0][2], "clause": mine[0][1]}
            dump()
            os._exit(0)

    import atexit

    atexit.register(dump)
    atheris.Setup([sys.argv[0], f"-runs={a.runs}", f"-seed={a.seed}", "-max_len=2048", "-len_control=0", "-verbosity=0", "-print_final_stats=0"],
                  target.hypothesis.fuzz_one_input)
    try:
        atheris.Fuzz()
    finally:
        dump()


if __name__ == "__main__":
    main()
