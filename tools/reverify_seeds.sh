#!/bin/bash
# tools/reverify_seeds.sh [seed-id ...]  -- re-runs the repository's own tests against each kept seeded change WITH the scratch worktree's src first on
# the path (the pinned command alone imports the installed copy, /repo/src, and would not see a change made in a worktree):
#   tests/earthkit_workflows (the 133 pinned tests) must pass; tests/cascade (not part of the pinned baseline: shadowed there) is compared with the
#   clean tree's result ("2 failed, 10 passed" expected, see tools/cascade_tests.sh). Records both in meta.json under confirmed.tests_against_worktree_src.
cd /verif
IDS="$@"; [ -z "$IDS" ] && IDS=$(ls seeded)
for id in $IDS; do
  D=/verif/seeded/$id
  TMP=$(mktemp -d /tmp/verif-rv-XXXX); WT=$TMP/wt
  git -C /repo worktree add -q --detach $WT HEAD
  if git -C $WT apply $D/patch.diff 2>/dev/null; then
    EK=$(cd $WT && PYTHONPATH=$WT/src timeout 900 /venv/bin/python -m pytest tests/earthkit_workflows -q -p no:cacheprovider --timeout=900 2>&1 | grep -E "^=+ .*(passed|failed|error)" | tail -1)
    CA="not run (change does not touch src/cascade)"
    if grep -q "^diff --git a/src/cascade" $D/patch.diff; then
      CA=$(cd $WT && PYTHONPATH=$WT/src timeout 900 /venv/bin/python -m pytest tests/cascade -q -p no:cacheprovider --timeout=300 2>&1 | grep -E "^=+ .*(passed|failed|error)" | tail -1)
    fi
  else
    EK="patch does not apply"; CA=""
  fi
  git -C /repo worktree remove --force $WT; rm -rf $TMP; git -C /repo worktree prune
  echo "$id | $EK | $CA"
  /venv/bin/python - "$D/meta.json" "$EK" "$CA" <<'PY'
import json,sys
p,ek,ca=sys.argv[1:4]
m=json.load(open(p)); m.setdefault("confirmed",{})["tests_against_worktree_src"]={"tests/earthkit_workflows":ek.strip("= "),"tests/cascade (clean tree: 2 failed, 10 passed)":ca.strip("= ")}
json.dump(m,open(p,"w"),indent=1)
PY
done
