#!/bin/bash
# tools/reverify_seeds.sh [seed-id ...]  -- re-runs the repository's own tests against each kept seeded change WITH the scratch worktree's src first on
# the path (the pinned command alone imports the installed copy, /repo/src, and would not see a change made in a worktree):
#   tests/earthkit_workflows (the 133 pinned tests) must pass; of tests/cascade (not part of the pinned baseline: shadowed there) the files that
#   do not start real clusters (low, scheduler, shm, executor/test_runner.py: 8 passed on the clean tree) are run for changes under src/cascade --
#   the cluster-starting ones use fixed ports and hang or fail in this sandbox regardless of the change. Recorded in meta.json.
cd /verif
IDS="$@"; [ -z "$IDS" ] && IDS=$(ls seeded)
for id in $IDS; do
  D=/verif/seeded/$id
  TMP=$(mktemp -d /tmp/verif-rv-XXXX); WT=$TMP/wt
  git -C /repo worktree add -q --detach $WT HEAD
  if git -C $WT apply $D/patch.diff 2>/dev/null; then
    EK=$(cd $WT && PYTHONPATH=$WT/src timeout 900 /venv/bin/python -m pytest tests/earthkit_workflows -q -p no:cacheprovider --timeout=900 --continue-on-collection-errors 2>&1 | grep -E "^=+ .*(passed|failed|error)" | tail -1)
    CA="not run (change does not touch src/cascade)"
    if grep -q "^diff --git a/src/cascade" $D/patch.diff; then
      CA=$(cd $WT && PYTHONPATH=$WT/src timeout 600 /venv/bin/python -m pytest tests/cascade/low tests/cascade/scheduler tests/cascade/shm tests/cascade/executor/test_runner.py -q -p no:cacheprovider --timeout=120 2>&1 | grep -E "^=+ .*(passed|failed|error)" | tail -1)
    fi
  else
    EK="patch does not apply"; CA=""
  fi
  git -C /repo worktree remove --force $WT; rm -rf $TMP; git -C /repo worktree prune
  echo "$id | $EK | $CA"
  /venv/bin/python - "$D/meta.json" "$EK" "$CA" <<'PY'
import json,sys
p,ek,ca=sys.argv[1:4]
m=json.load(open(p)); m.setdefault("confirmed",{})["tests_against_worktree_src"]={"tests/earthkit_workflows":ek.strip("= "),"tests/cascade low+scheduler+shm+test_runner (clean tree: 8 passed)":ca.strip("= ")}
json.dump(m,open(p,"w"),indent=1)
PY
done
