#!/venv/bin/python
"""Sensitivity probe: applies each listed mutation to a scratch copy of /repo/src (outside /repo and /verif,
removed afterwards) and requires the quick tier of the property's check to fail (exit 1).

  tools/mutants.py C16 [name-substring]      runs the mutants in mutations/C16.json
Mutation entry: {"name":..., "file": "src/...", "old": "...", "new": "...", "count": 1}
"""

import json
import os
import shutil
import subprocess
import sys
import tempfile
from concurrent.futures import ThreadPoolExecutor

VERIF = os.path.dirname(os.path.dirname(os.path.abspath(__file__)))


def run_one(prop: str, m: dict, cases: str | None) -> tuple[str, str, float]:
    import time

    d = tempfile.mkdtemp(prefix="verif-mut-")
    try:
        shutil.copytree("/repo/src", os.path.join(d, "src"))
        for ed in [m] + list(m.get("more", [])):
            p = os.path.join(d, ed["file"])
            s = open(p).read()
            if s.count(ed["old"]) != ed.get("count", 1):
                return m["name"], f"BAD-MUTANT (old occurs {s.count(ed['old'])}x)", 0.0
            open(p, "w").write(s.replace(ed["old"], ed["new"]))
        env = dict(os.environ, VERIF_REPO=d, VERIF_SEED=os.environ.get("VERIF_SEED", "1"))
        cmd = [os.path.join(VERIF, "run_check.py"), prop, "--tier", "quick", "--no-evidence"]
        if cases:
            cmd += ["--cases", cases]
        t0 = time.time()
        r = subprocess.run(cmd, env=env, capture_output=True, text=True, cwd=VERIF, timeout=int(os.environ.get("MUT_TIMEOUT", "1800")))
        dt = time.time() - t0
        out = r.stdout + r.stderr
        if r.returncode == 1 and "VIOLATION" in out:
            msg = [l for l in out.splitlines() if l.startswith("  ")]
            return m["name"], "killed: " + (msg[0].strip()[:150] if msg else ""), dt
        if r.returncode == 0:
            return m["name"], "SURVIVED", dt
        return m["name"], f"rc={r.returncode}: " + out.strip().splitlines()[-1][:200], dt
    finally:
        shutil.rmtree(d, ignore_errors=True)


def main() -> int:
    prop = sys.argv[1].upper()
    flt = sys.argv[2] if len(sys.argv) > 2 else ""
    muts = json.load(open(os.path.join(VERIF, "mutations", f"{prop}.json")))
    muts = [m for m in muts if flt in m["name"]]
    par = int(os.environ.get("MUT_PAR", "2"))
    bad = 0
    with ThreadPoolExecutor(par) as ex:
        for name, verdict, dt in ex.map(lambda m: run_one(prop, m, os.environ.get("MUT_CASES")), muts):
            print(f"{prop} {name:45s} {verdict}  ({dt:.0f}s)", flush=True)
            if not verdict.startswith("killed"):
                bad += 1
    return 1 if bad else 0


if __name__ == "__main__":
    sys.exit(main())
