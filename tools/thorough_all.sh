#!/bin/bash
# runs the thorough tier of the given checks one after the other (no evidence written: exploration only)
for p in "$@"; do
  echo "=== $p $(date +%H:%M:%S)"
  PYTHONHASHSEED=0 /venv/bin/python run_check.py $p --tier thorough --no-evidence 2>&1 | grep -v "resource_tracker\|warnings.warn\|^   \|^     " | tail -6 | cut -c1-600
done
